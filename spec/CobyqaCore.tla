----------------------------- MODULE CobyqaCore -----------------------------
(***************************************************************************)
(* The abstract state of ONE call of minimize, how every observable event  *)
(* changes it (Step), and the property clauses each event must satisfy     *)
(* (Failed).  This module is shared by                                     *)
(*   - Cobyqa.tla      : the design model, which GENERATES events by       *)
(*                       modelling the control flow of minimize, and       *)
(*   - TraceCobyqa.tla : the trace specification, which CONSUMES events    *)
(*                       recorded from the real code,                      *)
(* so that design checking and trace validation evaluate literally the     *)
(* same clauses.  A clause is named "Cxx.name"; property Cxx holds on a    *)
(* behaviour iff no clause with that prefix ever fails.                    *)
(*                                                                         *)
(* Events (field e):                                                       *)
(*  EB  problem evaluation begins (site, internal trial point, widened     *)
(*      internal box, penalty)            EE  it ends (user-space point,   *)
(*      raw f, the solver's own violation cv, true-violation band, values  *)
(*      handed to the models, exception)                                   *)
(*  Obj / Con / Cb   calls of the user's objective / j-th constraint /     *)
(*      callback, as seen by spies in user space                           *)
(*  It  an iteration starts     Upd / Enh / UpR / Pen / Geo / Init / Interp*)
(*      trust-region and model bookkeeping (optional families)             *)
(*  Res minimize returned       Raise  minimize raised                     *)
(* Values are keys (ExtReal.tla).  h is the header of the run.             *)
(***************************************************************************)
EXTENDS ExtReal, Filter0, TLC

Fin(h, k) == k # NaN /\ k # h.kPInf /\ k # h.kNInf

InBox(x, lo, hi) == \A i \in DOMAIN x : Le(lo[i], x[i]) /\ Le(x[i], hi[i])
SamePoint(x, y) == Len(x) = Len(y) /\ \A i \in DOMAIN x : x[i] = y[i]
UserOK(h, x) ==  \* C01 (a): exactly inside the user's box, fixed variables held
  h.consistent =>
    /\ Len(x) = h.n
    /\ InBox(x, h.lb, h.ub)
    /\ \A i \in DOMAIN x : h.fixed[i] => x[i] = h.lb[i]

InBand(v, lo, hi) == (IsNaN(v) /\ IsNaN(lo)) \/ (Le(lo, v) /\ Le(v, hi))

NoWin == [open |-> FALSE, site |-> "NONE", nobj |-> 0, ncon |-> <<>>, pts |-> {},
          ncb |-> 0, cb |-> [x |-> <<>>, f |-> NaN, conv |-> "none", hasf |-> FALSE,
                             would |-> <<>>, wouldf |-> NaN, haswould |-> FALSE]]

InitState(h) ==
  [nev |-> 0, F |-> <<>>, CV |-> <<>>, Lo |-> <<>>, Hi |-> <<>>, X |-> <<>>, flt |-> <<>>,
   win |-> NoWin, stop |-> {}, stopAt |-> 0, lastSite |-> "NONE",
   ncb |-> 0, cbRaised |-> FALSE, cbX |-> <<>>,
   nit |-> 0, resol |-> NaN, nEnh |-> 0, done |-> FALSE,
   lastXin |-> <<>>, lastOut0 |-> NaN, conX |-> [j \in 1..h.ncon |-> <<>>],
   initX |-> <<>>, initXu |-> <<>>, initOut |-> <<>>, iterSites |-> <<>>]

StopStatus(r) == CASE r = "target" -> 1 [] r = "feasible" -> 4 [] r = "callback" -> 3

(* ------------------------------------------------------------------ Step *)
Step(h, st, ev) ==
  CASE ev.e = "EB" ->
         [st EXCEPT !.win = [NoWin EXCEPT !.open = TRUE, !.site = ev.site,
                                          !.ncon = [j \in 1..h.ncon |-> 0]],
                    !.lastXin = ev.xin,
                    !.iterSites = IF ev.site \in {"TR", "SOC", "GEO"} THEN Append(@, ev.site) ELSE @]
    [] ev.e = "Obj" ->
         IF st.win.open
         THEN [st EXCEPT !.win.nobj = @ + 1, !.win.pts = @ \cup {ev.x}]
         ELSE st
    [] ev.e = "Con" ->
         LET s1 == [st EXCEPT !.conX[ev.j] = ev.x]
         IN IF st.win.open
            THEN [s1 EXCEPT !.win.ncon[ev.j] = @ + 1, !.win.pts = @ \cup {ev.x}]
            ELSE s1
    [] ev.e = "Cb" ->
         LET s1 == [st EXCEPT !.ncb = @ + 1,
                              !.cbRaised = (ev.raised = "StopIteration"),
                              !.cbX = ev.x,
                              !.stop = IF ev.raised = "StopIteration"
                                       THEN @ \cup {"callback"} ELSE @,
                              !.stopAt = IF ev.raised = "StopIteration"
                                         THEN st.nev + 1 ELSE @]
         IN IF st.win.open
            THEN [s1 EXCEPT !.win.ncb = @ + 1,
                            !.win.cb = [x |-> ev.x, f |-> ev.f, conv |-> ev.conv,
                                        hasf |-> ev.hasf, would |-> ev.would,
                                        wouldf |-> ev.wouldf, haswould |-> ev.haswould]]
            ELSE s1
    [] ev.e = "EE" ->
         IF ~ev.completed THEN [st EXCEPT !.win = NoWin, !.lastSite = ev.site]
         ELSE
           LET n1  == st.nev + 1
               cvk == IF ev.hascv THEN ev.cv ELSE ev.cvT
               F1  == Append(st.F, ev.f)
               C1  == Append(st.CV, cvk)
               tgt == Le(ev.f, h.kTarget) /\ Le(cvk, h.kTol)
               fea == ~h.hasobj /\ Le(cvk, h.kTol)
               trg == (IF tgt THEN {"target"} ELSE {}) \cup (IF fea THEN {"feasible"} ELSE {})
           IN [st EXCEPT !.nev = n1, !.F = F1, !.CV = C1,
                         !.Lo = Append(@, ev.cvLo), !.Hi = Append(@, ev.cvHi),
                         !.X = Append(@, ev.xu),
                         !.flt = FilterAfter("nanaware", F1, C1, @, n1, ev.f, cvk, h.fsize),
                         !.win = NoWin, !.lastSite = ev.site,
                         !.stop = @ \cup trg,
                         !.stopAt = IF trg # {} /\ st.stop = {} THEN n1 ELSE @,
                         !.lastOut0 = IF Len(ev.out) > 0 THEN ev.out[1] ELSE NaN,
                         !.initX = IF ev.site = "INIT" THEN Append(@, st.lastXin) ELSE @,
                         !.initXu = IF ev.site = "INIT" THEN Append(@, ev.xu) ELSE @,
                         !.initOut = IF ev.site = "INIT" /\ Len(ev.out) > 0 THEN Append(@, ev.out[1]) ELSE @]
    [] ev.e = "It" -> [st EXCEPT !.nit = @ + 1, !.iterSites = <<>>,
                                 !.resol = IF "resol" \in DOMAIN ev THEN ev.resol ELSE @]
    [] ev.e = "Init" -> [st EXCEPT !.resol = ev.resol]
    [] ev.e = "Enh" -> [st EXCEPT !.nEnh = @ + 1, !.resol = ev.ra]
    [] ev.e \in {"Res", "Raise"} -> [st EXCEPT !.done = TRUE]
    [] OTHER -> st

(* --------------------------------------------------------------- clauses *)
\* each operator returns the set of names of the clauses that FAIL
Sel(c, name) == IF c THEN {} ELSE {name}

EvalIds(h, st) == IF h.fsize = 0 THEN 1..st.nev ELSE SeqRange(st.flt)

\* Conformance diagnostics (prefix "D."): the recorded run deviates from the implementation-shaped
\* model in a way that no listed property forbids.  They are counted, never alarmed on.
\* Shape of an iteration: at most one trust-region evaluation, then at most one second-order
\* correction, then at most one geometry evaluation; sampling evaluations only before the loop.
FlowOK(st, site) ==
  CASE site = "INIT"   -> st.nit = 0
    [] site = "TR"     -> st.nit > 0 /\ st.iterSites = <<>>
    [] site = "SOC"    -> st.iterSites = <<"TR">>
    [] site = "GEO"    -> st.nit > 0 /\ st.iterSites \in {<<>>, <<"TR">>, <<"TR", "SOC">>}
    [] site = "RESULT" -> st.nev = 0
    [] OTHER -> FALSE

FailEB(h, st, ev) ==
     Sel(~(h.consistent /\ ev.bfeas) \/ InBox(ev.xin, ev.loW, ev.hiW), "C01.trial." \o ev.site)
\cup Sel(st.stop = {}, "C09.evalafter")
\cup Sel(~st.win.open, "C06.nested")
\cup Sel(~st.done, "C08.afterend")
\cup Sel(FlowOK(st, ev.site), "D.flow." \o ev.site)

FailObj(h, st, ev) ==
     Sel(ev.inwin /\ st.win.open, "C06.objoutside")
\cup Sel(~(st.win.open /\ st.win.nobj >= 1), "C06.objtwice")
\cup Sel(UserOK(h, ev.x), "C01.obj")
\cup Sel(st.stop = {}, "C09.userafter")

FailCon(h, st, ev) ==
     Sel(ev.inwin /\ st.win.open, "C06.conoutside")
\cup Sel(~(st.win.open /\ st.win.ncon[ev.j] >= 1), "C06.contwice")
\cup Sel(UserOK(h, ev.x), "C01.con")
\cup Sel(st.stop = {}, "C09.userafter")

FailCb(h, st, ev) ==
     Sel(ev.inwin /\ st.win.open, "C20.outside")
\cup Sel(~(st.win.open /\ st.win.ncb >= 1), "C20.twice")
\cup Sel(ev.conv = h.cbsig, "C20.conv")
\cup Sel(ev.conv = "kw" => ev.hasf, "C20.fun")
\cup Sel(UserOK(h, ev.x), "C01.cb")
\cup Sel(st.stop = {}, "C09.userafter")
\cup Sel(ev.haswould => (SamePoint(ev.x, ev.would) /\ (ev.conv = "kw" => ev.f = ev.wouldf)),
         "C20.would")

FailEE(h, st, ev) ==
  LET s1 == Step(h, st, ev)
      w  == st.win
      cbOK ==  \* the callback got an Acceptable evaluation among those made so far
        \/ Len(ev.merit) # s1.nev      \* merit keys not supplied (long run): not checked
        \/ \E i \in 1..s1.nev :
              /\ SamePoint(s1.X[i], w.cb.x)
              /\ (w.cb.conv = "kw" => w.cb.f = s1.F[i])
              /\ Acceptable(i, EvalIds(h, s1), s1.F, s1.CV, ev.merit, h.kTol, LAMBDA k : Fin(h, k))
  IN IF ~ev.completed THEN {}
     ELSE
          Sel(s1.nev <= h.maxfev, "C05.maxfev")
     \cup Sel(w.nobj = (IF h.hasobj THEN 1 ELSE 0), "C06.objcount")
     \cup Sel(w.pts \subseteq {ev.xu}, "C06.point")
     \cup Sel(\A j \in 1..h.ncon : w.ncon[j] = 0 => SamePoint(st.conX[j], ev.xu), "C06.conomitted")
     \cup Sel(h.hascb => w.ncb = 1, "C20.count")
     \cup Sel(~h.hascb => w.ncb = 0, "C20.count")
     \cup Sel((h.hascb /\ w.ncb = 1) => cbOK, "C20.best")
     \cup Sel(UserOK(h, ev.xu), "C01.eval")
     \cup Sel(ev.exc = "none" =>
               (ev.outok /\ \A i \in DOMAIN ev.out : Le(h.kBarN, ev.out[i]) /\ Le(ev.out[i], h.kBarP)),
              "C08.barrier")
     \cup Sel((ev.exc = "none" /\ Len(ev.out) > 0) =>
               ev.out[1] = (IF IsNaN(ev.f) THEN h.kBarP
                            ELSE Max2(Min2(ev.f, h.kBarP), h.kBarN)), "C12.clip")

FailIt(h, st, ev) ==
     Sel(st.nit + 1 <= h.maxiter, "C05.maxiter")
\cup (IF "radius" \in DOMAIN ev
      THEN    Sel(Le(ev.rhoend, ev.resol) /\ Le(ev.resol, ev.radius), "C18.order")
         \cup Sel(IsNaN(st.resol) \/ Le(ev.resol, st.resol), "C18.mono")
         \cup Sel(ev.penok, "C18.penalty")
         \cup Sel(\A k \in DOMAIN ev.merit : Le(ev.merit[ev.best], ev.mhi[k]), "C18.centre")
         \cup Sel(\A k \in DOMAIN ev.merit :
                    ev.merit[k] = ev.merit[ev.best] => Le(ev.mviol[ev.best], ev.mvhi[k]), "C18.tie")
      ELSE {})

FailTR(h, st, ev) ==
  CASE ev.e = "Init" ->
            Sel(Le(ev.rhoend, ev.resol) /\ Le(ev.resol, ev.radius), "C18.order")
       \cup Sel(\A k \in DOMAIN ev.merit : Le(ev.merit[ev.best], ev.mhi[k]), "C18.centre")
       \cup Sel(\A k \in DOMAIN ev.merit :
                  ev.merit[k] = ev.merit[ev.best] => Le(ev.mviol[ev.best], ev.mvhi[k]), "C18.tie")
    [] ev.e = "Enh" ->
            Sel(Le(ev.ra, ev.rb), "C18.mono")
       \cup Sel(Le(ev.rhoend, ev.ra) /\ Le(ev.ra, ev.rada), "C18.order")
       \cup Sel(h.enhBound = 0 \/ st.nEnh + 1 <= h.enhBound, "C18.bound")
    [] ev.e = "UpR" -> Sel(Le(ev.resol, ev.rada), "C18.order")
    [] ev.e = "Pen" -> Sel(ev.ok, "C18.penalty")
    [] ev.e = "Upd" ->
            Sel(ev.best = 0 \/ ev.k # ev.best, "C18.replace")
       \cup Sel(ev.exc # "none" \/ (ev.frec = ev.fval /\ ev.fval = st.lastOut0
                                    /\ SamePoint(ev.x, st.lastXin)), "C12.recorded")
       \* every model (objective and each constraint) receives exactly one update per replacement
       \cup Sel(ev.exc # "none" \/ ev.nupd = ev.nmodels, "C12.generation")
    [] ev.e = "MInit" ->   \* the initial interpolation set: slot k holds the k-th sampled point and its value
            Sel(/\ Len(ev.pts) = Len(st.initX) /\ Len(ev.fvals) = Len(st.initOut)
                /\ \A k \in DOMAIN ev.pts : SamePoint(ev.pts[k], st.initX[k]) /\ ev.fvals[k] = st.initOut[k]
                \* when the variables are neither scaled nor reduced, the user's functions were called at
                \* exactly the slot's point (a sample moved by a projection would carry another point's value)
                /\ ((~h.scale /\ \A i \in DOMAIN h.fixed : ~h.fixed[i]) =>
                      (/\ Len(st.initXu) = Len(ev.pts)
                       /\ \A k \in DOMAIN ev.pts : SamePoint(ev.pts[k], st.initXu[k]))),
                "C12.initial")
    [] ev.e = "Views" ->   \* value / gradient / Hessian / product / curvature belong to one quadratic
            Sel(\A m \in DOMAIN ev.err : Le(ev.err[m], ev.tol[m]), "C13.views")
    [] ev.e = "ShiftInv" -> \* a shift of the expansion point does not change the function
            Sel(ev.skip \/ \A m \in DOMAIN ev.err : Le(ev.err[m], ev.tol[m]), "C13.shiftinv")
    [] ev.e = "Dets" ->    \* one-index and all-indices determinant ratios agree
            Sel(ev.skip \/ Le(ev.rel, ev.tol), "C14.agree")
    [] ev.e = "Geo" -> Sel(ev.k # ev.best, "C18.replace")
    [] ev.e = "Interp" ->
            Sel(ev.illskip \/ \A m \in DOMAIN ev.resid : Le(ev.resid[m], ev.tol[m]),
                "C12.resid." \o ev.what)
    [] OTHER -> {}

FailRes(h, st, ev) ==
  LET ids   == EvalIds(h, st)
      atX   == {i \in 1..st.nev : SamePoint(st.X[i], ev.x)}
      atXF  == {i \in atX : st.F[i] = ev.f}
      atXFC == {i \in atXF : InBand(ev.cv, st.Lo[i], st.Hi[i])}
      L     == Len(ev.hf)
      expL  == IF h.hsize = 0 THEN st.nev ELSE Min2(st.nev, h.hsize)
      stopOK ==
        \/ st.stop = {}
        \/ ev.status \in {StopStatus(r) : r \in st.stop}
        \/ (st.lastSite = "RESULT" /\ ev.status \in {-1, 2})
      fin(k) == Fin(h, k)
  IN   Sel(ev.well, "C08.wellformed")
  \cup Sel(ev.status \in {0, 1, 2, 3, 4, 5, 6, -1, -2} /\ ev.midx = ev.status, "C07.code")
  \cup Sel(ev.status = 0 => (ev.hasfw /\ ev.resol = ev.rhoend), "C07.s0")
  \cup Sel(ev.status = 1 => (Le(ev.f, h.kTarget) /\ Le(ev.cv, h.kTol)), "C07.s1")
  \* ... feasible for the constraints AS THE USER STATED THEM (lower edge of the true-violation band)
  \cup Sel((ev.status \in {1, 4} /\ atXF # {}) => \E i \in atXF : IsNaN(st.Lo[i]) \/ Le(st.Lo[i], h.kTol),
           "C07.truefeasible")
  \cup Sel((ev.success /\ ev.status \in {0, 2, 3} /\ atXF # {}) =>
             \E i \in atXF : IsNaN(st.Lo[i]) \/ Le(st.Lo[i], h.kTol), "C07.truefeasible")
  \cup Sel(ev.status = 2 => h.allfixed, "C07.s2")
  \cup Sel(ev.status = 3 => st.cbRaised, "C07.s3")
  \cup Sel(ev.status = 4 => (~h.hasobj /\ Le(ev.cv, h.kTol)), "C07.s4")
  \cup Sel(ev.status = 5 => ev.nfev = h.maxfev, "C07.s5")
  \cup Sel(ev.status = 6 => ev.nit = h.maxiter, "C07.s6")
  \cup Sel(ev.status = -1 => ~h.consistent, "C07.sm1")
  \cup Sel(ev.success => (ev.status \in 0..4 /\ fin(ev.f) /\ fin(ev.cv)
                           /\ (ev.status \notin {1, 4} => Le(ev.cv, h.kTol))), "C07.success")
  \cup Sel(ev.success => (fin(ev.f) /\ fin(ev.cv)), "C08.nansuccess")
  \cup Sel(ev.nfev = st.nev, "C05.nfev")
  \cup Sel(ev.nit <= h.maxiter /\ st.nit <= h.maxiter, "C05.nit")
  \cup Sel(ev.hashist = h.store, "C05.histpresent")
  \cup Sel(h.store => (L = expL /\ Len(ev.hc) = expL), "C05.histlen")
  \cup Sel((h.store /\ L = expL /\ L <= st.nev) =>
             \A i \in 1..L : ev.hf[i] = st.F[st.nev - L + i], "C05.histfun")
  \cup Sel((h.store /\ Len(ev.hc) = expL /\ expL <= st.nev) =>
             \A i \in 1..expL : InBand(ev.hc[i], st.Lo[st.nev - expL + i], st.Hi[st.nev - expL + i]),
           "C05.histcv")
  \cup Sel(atX # {}, "C02.point")
  \cup Sel(atX = {} \/ atXF # {}, "C02.fun")
  \cup Sel(atXF = {} \/ atXFC # {}, "C02.maxcv")
  \cup Sel(UserOK(h, ev.x), "C01.ret")
  \cup Sel(atXF = {} \/ Len(ev.merit) # st.nev \/
           \E i \in atXF : Acceptable(i, ids, st.F, st.CV, ev.merit, h.kTol, fin), "C03.best")
  \cup Sel(stopOK, "C09.status")
  \cup Sel(st.stop # {} => ev.nfev = st.stopAt, "C09.nfev")
  \cup Sel(ev.status = 1 => ("target" \in st.stop /\ st.stopAt = st.nev), "C09.conv1")
  \cup Sel(ev.status = 4 => ("feasible" \in st.stop /\ st.stopAt = st.nev), "C09.conv4")
  \cup Sel(ev.status = 3 => ("callback" \in st.stop /\ st.stopAt = st.nev), "C09.conv3")
  \cup Sel(ev.status = 3 => SamePoint(ev.x, st.cbX), "C20.stoppoint")
  \cup Sel(st.cbRaised =>
            (ev.nfev = st.ncb /\ (ev.status = 3 \/ (st.lastSite = "RESULT" /\ ev.status \in {-1, 2}))),
           "C20.stop")
  \cup Sel(h.pure, "C11.pure")
  \cup Sel(~st.win.open, "C06.openatend")

FailRaise(h, st, ev) ==
  (IF ev.type = "Hang" THEN {"C08.hang"}
   ELSE IF h.valid THEN {"C08.raise." \o ev.type}
   ELSE Sel(ev.type \in {"ValueError", "TypeError"}, "C08.raise." \o ev.type))
  \cup  \* a stopping request must end the run WITH a result (C09, C20)
  (IF h.valid /\ st.stop # {} THEN {"C09.noresult"} ELSE {})
  \cup (IF h.valid /\ st.cbRaised THEN {"C20.noresult"} ELSE {})

Failed(h, st, ev) ==
  CASE ev.e = "EB"  -> FailEB(h, st, ev)
    [] ev.e = "Obj" -> FailObj(h, st, ev)
    [] ev.e = "Con" -> FailCon(h, st, ev)
    [] ev.e = "Cb"  -> FailCb(h, st, ev)
    [] ev.e = "EE"  -> FailEE(h, st, ev)
    [] ev.e = "It"  -> FailIt(h, st, ev)
    [] ev.e = "Res" -> FailRes(h, st, ev)
    [] ev.e = "Raise" -> FailRaise(h, st, ev)
    [] OTHER -> FailTR(h, st, ev)

\* a clause name belongs to property pid
Prefix(s, n) == SubSeq(s, 1, n)
=============================================================================
