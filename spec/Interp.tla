------------------------------- MODULE Interp -------------------------------
(***************************************************************************)
(* Exact algebra of the interpolation models on small integer lattices     *)
(* (properties C13 and C14).                                               *)
(*                                                                         *)
(* TLC has no reals.  On integer point sets and integer values, however,   *)
(* everything the method prescribes is a rational number that TLC can      *)
(* compute exactly:                                                        *)
(*  - W(P): the KKT matrix of the least-Frobenius-norm interpolation       *)
(*    problem on the point set P (points relative to the base point, the   *)
(*    quadratic block scaled by 2 so that all entries are integers);       *)
(*  - Det by fraction-free (Bareiss) elimination;  Poised(P) == Det # 0;   *)
(*  - LFN(P, r): the interpolant of the values r whose Hessian has least   *)
(*    Frobenius norm, by Cramer's rule: integer numerators over Det(W(P)); *)
(*  - Sigma(P, k, x) = Det(W(P[k <- x])) / Det(W(P)): the determinant      *)
(*    ratio used to choose / rate interpolation points (C14);              *)
(*  - Update: the symmetric Broyden update = previous model + the LFN      *)
(*    interpolant of the interpolation error on the new set, carried out   *)
(*    in exact rationals (C13).                                            *)
(* Bounds (TLC integers are 32-bit; TLC reports overflow, it never wraps): *)
(* n = 1 with lattice -4..4 and n = 2 with lattice {-1,0,1}^2.             *)
(***************************************************************************)
EXTENDS Integers, Sequences, FiniteSets, TLC, Json, SequencesExt

(* ---------------------------------------------------------- integers *)
Abs(a) == IF a >= 0 THEN a ELSE -a
RECURSIVE GCD(_, _)
GCD(a, b) == IF b = 0 THEN Abs(a) ELSE GCD(b, a % b)

RECURSIVE SumTo(_, _)
SumTo(f, m) == IF m = 0 THEN 0 ELSE f[m] + SumTo(f, m - 1)     \* f : 1..m -> Int
Dot(a, b) == SumTo([i \in 1..Len(a) |-> a[i] * b[i]], Len(a))

(* --------------------------------------------------------- rationals *)
\* <<num, den>> with den > 0, in lowest terms
Rat(p, q) == LET s == IF q < 0 THEN -1 ELSE 1
                 g == GCD(Abs(p), Abs(q))
             IN IF p = 0 THEN <<0, 1>> ELSE <<(s * p) \div g, (s * q) \div g>>
RAdd(a, b) == LET g == GCD(a[2], b[2])
              IN Rat(a[1] * (b[2] \div g) + b[1] * (a[2] \div g), (a[2] \div g) * b[2])
RMul(a, b) == LET g1 == GCD(Abs(a[1]), b[2])
                  g2 == GCD(Abs(b[1]), a[2])
              IN Rat((a[1] \div g1) * (b[1] \div g2), (a[2] \div g2) * (b[2] \div g1))
RNeg(a) == <<-a[1], a[2]>>
RInt(i) == <<i, 1>>
RECURSIVE RSumTo(_, _)
RSumTo(f, m) == IF m = 0 THEN <<0, 1>> ELSE RAdd(f[m], RSumTo(f, m - 1))

(* ---------------------------------------------------------- matrices *)
\* fraction-free Gaussian elimination: the determinant of an integer matrix
Det(M) ==
  LET m == Len(M)
      RECURSIVE Go(_, _, _, _)
      Go(A, kk, prev, sgn) ==
        IF kk = m THEN sgn * A[m][m]
        ELSE LET piv == {i \in kk..m : A[i][kk] # 0}
             IN IF piv = {} THEN 0
                ELSE LET p  == CHOOSE i \in piv : \A j \in piv : i <= j
                         B  == IF p = kk THEN A ELSE [A EXCEPT ![kk] = A[p], ![p] = A[kk]]
                         s2 == IF p = kk THEN sgn ELSE -sgn
                         C  == TLCEval([i \in 1..m |-> [j \in 1..m |->
                                  IF i > kk /\ j > kk
                                  THEN (B[i][j] * B[kk][kk] - B[i][kk] * B[kk][j]) \div prev
                                  ELSE B[i][j]]])
                     IN Go(C, kk + 1, B[kk][kk], s2)
  IN IF m = 0 THEN 1 ELSE Go(M, 1, 1, 1)

ReplaceCol(M, c, v) == [i \in 1..Len(M) |-> [j \in 1..Len(M) |-> IF j = c THEN v[i] ELSE M[i][j]]]

(* ---------------------------------------- the interpolation system W(P) *)
\* P: sequence of npt points, each a sequence of n integers (relative to the base point)
W(P) ==
  LET npt == Len(P)
      n   == Len(P[1])
      m   == npt + n + 1
  IN [i \in 1..m |-> [j \in 1..m |->
        IF i <= npt /\ j <= npt THEN Dot(P[i], P[j]) * Dot(P[i], P[j])
        ELSE IF i <= npt /\ j = npt + 1 THEN 1
        ELSE IF i <= npt THEN P[i][j - npt - 1]
        ELSE IF i = npt + 1 THEN (IF j <= npt THEN 1 ELSE 0)
        ELSE (IF j <= npt THEN P[j][i - npt - 1] ELSE 0)]]

DetW(P) == Det(W(P))
Poised(P) == DetW(P) # 0

\* determinant ratio after replacing point k by x  (numerator; the denominator is DetW(P))
SigmaNum(P, k, x) == DetW([P EXCEPT ![k] = x])

\* least-Frobenius-norm interpolant of the values r on P: Cramer numerators over den
\* q(x) = (c + g.x + sum_k mu[k] (P[k].x)^2) / den ;  Hessian = 2 sum_k mu[k] P[k] P[k]^T / den
\* fraction-free solution of M x = rhs (Bareiss forward elimination of the augmented matrix,
\* then fraction-free back substitution): integers X and den with x = X / den, den = +-Det(M)
SolveFF(M, rhs) ==
  LET m == Len(M)
      Aug == [i \in 1..m |-> [j \in 1..(m + 1) |-> IF j <= m THEN M[i][j] ELSE rhs[i]]]
      RECURSIVE Fwd(_, _, _)
      Fwd(A, kk, prev) ==
        IF kk = m THEN A
        ELSE LET piv == {i \in kk..m : A[i][kk] # 0}
             IN IF piv = {} THEN [A EXCEPT ![m][m] = 0]
                ELSE LET p == CHOOSE i \in piv : \A j \in piv : i <= j
                         B == IF p = kk THEN A ELSE [A EXCEPT ![kk] = A[p], ![p] = A[kk]]
                         C == TLCEval([i \in 1..m |-> [j \in 1..(m + 1) |->
                                 IF i > kk /\ j > kk
                                 THEN (B[i][j] * B[kk][kk] - B[i][kk] * B[kk][j]) \div prev
                                 ELSE B[i][j]]])
                     IN Fwd(C, kk + 1, B[kk][kk])
      U == TLCEval(Fwd(Aug, 1, 1))
      d == U[m][m]
      RECURSIVE Back(_, _)
      Back(i, X) ==
        IF i = 0 THEN X
        ELSE LET s  == SumTo([j \in 1..m |-> IF j > i THEN U[i][j] * X[j] ELSE 0], m)
                 xi == (d * U[i][m + 1] - s) \div U[i][i]
             IN Back(i - 1, [X EXCEPT ![i] = xi])
  IN IF d = 0 THEN [den |-> 0, X |-> [i \in 1..m |-> 0]]
     ELSE [den |-> d, X |-> Back(m, [i \in 1..m |-> 0])]

LFN(P, r) ==
  LET npt == Len(P)
      n   == Len(P[1])
      m   == npt + n + 1
      rhs == [i \in 1..m |-> IF i <= npt THEN r[i] ELSE 0]
      S   == TLCEval(SolveFF(W(P), rhs))
      sol == S.X
  IN [den |-> S.den,
      mu  |-> [kk \in 1..npt |-> sol[kk]],
      c   |-> sol[npt + 1],
      g   |-> [i \in 1..n |-> sol[npt + 1 + i]],
      H   |-> [a \in 1..n |-> [b \in 1..n |->
                2 * SumTo([kk \in 1..npt |-> sol[kk] * P[kk][a] * P[kk][b]], npt)]]]

\* the same by Cramer's rule (m + 1 determinants): used to cross-check SolveFF
LFNCramer(P, r) ==
  LET npt == Len(P)
      n   == Len(P[1])
      m   == npt + n + 1
      M   == TLCEval(W(P))
      rhs == [i \in 1..m |-> IF i <= npt THEN r[i] ELSE 0]
  IN [den |-> Det(M), X |-> [j \in 1..m |-> Det(ReplaceCol(M, j, rhs))]]
SolveAgrees(P, r) ==   \* X / den equal as rationals
  LET A == LFNCramer(P, r)
      npt == Len(P)
      n == Len(P[1])
      rhs == [i \in 1..(npt + n + 1) |-> IF i <= npt THEN r[i] ELSE 0]
      B == SolveFF(W(P), rhs)
  IN \A j \in 1..(npt + n + 1) : A.X[j] * B.den = B.X[j] * A.den

(* --------------------------------------- models with rational coefficients *)
\* [c |-> rat, g |-> seq of rat, H |-> n x n rats]: q(x) = c + g.x + 1/2 x^T H x
ModelOf(L) ==
  [c |-> Rat(L.c, L.den),
   g |-> [i \in 1..Len(L.g) |-> Rat(L.g[i], L.den)],
   H |-> [a \in 1..Len(L.g) |-> [b \in 1..Len(L.g) |-> Rat(L.H[a][b], L.den)]]]

EvalModel(q, x) ==
  LET n == Len(x)
      lin == RSumTo([i \in 1..n |-> RMul(q.g[i], RInt(x[i]))], n)
      quad == RSumTo([a \in 1..n |->
                 RSumTo([b \in 1..n |-> RMul(q.H[a][b], RInt(x[a] * x[b]))], n)], n)
  IN RAdd(q.c, RAdd(lin, RMul(<<1, 2>>, quad)))

AddScaled(q, d, q2) ==        \* q + d * q2   (d rational)
  [c |-> RAdd(q.c, RMul(d, q2.c)),
   g |-> [i \in 1..Len(q.g) |-> RAdd(q.g[i], RMul(d, q2.g[i]))],
   H |-> [a \in 1..Len(q.g) |-> [b \in 1..Len(q.g) |-> RAdd(q.H[a][b], RMul(d, q2.H[a][b]))]]]

\* symmetric Broyden update: point k of P replaced by x with value f
Unit(npt, k) == [i \in 1..npt |-> IF i = k THEN 1 ELSE 0]
UpdateModel(q, P, k, x, f) ==
  LET P2 == [P EXCEPT ![k] = x]
      err == TLCEval(RAdd(RInt(f), RNeg(EvalModel(q, x))))
      lag == TLCEval(ModelOf(TLCEval(LFN(P2, Unit(Len(P), k)))))
  IN TLCEval(AddScaled(q, err, lag))

(* ------------------------------------------------------------ universes *)
CONSTANTS N,            \* dimension (1 or 2)
          Coord,        \* coordinate values of the lattice
          Npts,         \* set of numbers of interpolation points
          Vals,         \* values used for update histories
          MaxHist       \* bound on the length of update histories

Pred == 99        \* "the value the current model predicts" (zero interpolation error)
Lattice == IF N = 1 THEN {<<a>> : a \in Coord} ELSE {<<a, b>> : a \in Coord, b \in Coord}

\* point sets as strictly increasing sequences w.r.t. an arbitrary fixed order: all subsets
LatSeq == SetToSeq(Lattice)
Idx(p) == CHOOSE i \in 1..Len(LatSeq) : LatSeq[i] = p
Subsets(kk) == {S \in SUBSET Lattice : Cardinality(S) = kk}
AsSeq(S) == SetToSortSeq(S, LAMBDA a, b : Idx(a) < Idx(b))

(* --- state machine 1: every poised set, exported with its determinant ratios (C14)
       and its Lagrange functions (fresh LFN models of the unit value vectors, C13) --- *)
VARIABLES P, q, hist
ivars == <<P, q, hist>>

\* the (expensive) export happens in an action so that TLC's workers share the work
SetsInit == \E kk \in Npts : \E S \in Subsets(kk) :
              /\ P = AsSeq(S) /\ q = "none" /\ hist = <<>>
ExportSet ==
  PrintT("EXPORT " \o ToJson(
    [P |-> P, det |-> DetW(P),
     sigma |-> [kk \in 1..Len(P) |-> [xi \in 1..Len(LatSeq) |-> SigmaNum(P, kk, LatSeq[xi])]],
     lattice |-> LatSeq,
     lagrange |-> [kk \in 1..Len(P) |-> LFN(P, Unit(Len(P), kk))]]))
SetsNext == /\ hist = <<>>
            /\ hist' = <<"done">>
            /\ (Poised(P) => (ExportSet /\ Assert(SolveAgrees(P, Unit(Len(P), 1)), <<"SolveFF disagrees with Cramer", P>>)))
            /\ UNCHANGED <<P, q>>
SetsSpec == SetsInit /\ [][SetsNext]_ivars

(* --- state machine 2: update histories from the standard initial set (C13) --- *)
StdSet(npt) ==   \* 0, +e_i, -e_i, then e_1+e_2 : the solver's own initial pattern
  LET all == IF N = 1 THEN << <<0>>, <<1>>, <<-1>> >>
             ELSE << <<0, 0>>, <<1, 0>>, <<0, 1>>, <<-1, 0>>, <<0, -1>>, <<1, 1>> >>
  IN SubSeq(all, 1, npt)

HistInit == \E npt \in Npts : \E r \in [1..npt -> (Vals \ {99})] :
              /\ P = StdSet(npt)
              /\ q = TLCEval(ModelOf(TLCEval(LFN(P, r))))
              /\ hist = << [a |-> "build", r |-> r] >>
Replace(kk, x, f) ==
  /\ Len(hist) <= MaxHist
  /\ x \notin {P[i] : i \in 1..Len(P)}
  /\ Poised([P EXCEPT ![kk] = x])
  \* f = Pred: the new value is exactly the value the model predicts (zero interpolation
  \* error): the prescribed correction is the zero quadratic
  /\ q' = IF f = Pred THEN q ELSE UpdateModel(q, P, kk, x, f)
  /\ P' = [P EXCEPT ![kk] = x]
  /\ hist' = Append(hist, [a |-> "replace", k |-> kk, x |-> x, f |-> f])
HistNext == \E kk \in 1..Len(P), x \in Lattice, f \in Vals : Replace(kk, x, f)
HistSpec == HistInit /\ [][HistNext]_ivars
\* for -simulate: the arguments are drawn before the (expensive) update is computed, so that
\* the simulator does not evaluate every successor of a state in order to pick one
\* (a value drawn at random is bound by quantifying over a singleton set: TLC evaluates the
\* set once, whereas a LET definition may be re-evaluated for each primed conjunct)
HistNextRandom == \E kk \in {RandomElement(1..Len(P))}, x \in {RandomElement(Lattice)},
                     f \in {RandomElement(Vals)} : Replace(kk, x, f)
ZeroModel == [c |-> <<0, 1>>, g |-> [i \in 1..N |-> <<0, 1>>],
              H |-> [a \in 1..N |-> [b \in 1..N |-> <<0, 1>>]]]
HistSimInit == \E npt \in Npts : P = StdSet(npt) /\ q = ZeroModel /\ hist = <<>>
BuildRandom == /\ hist = <<>>
               /\ \E r \in {[i \in 1..Len(P) |-> RandomElement(Vals \ {Pred})]} :
                     /\ q' = ModelOf(LFN(P, r))
                     /\ hist' = << [a |-> "build", r |-> r] >>
               /\ UNCHANGED P
HistSimSpec == HistSimInit /\ [][BuildRandom \/ (hist # <<>> /\ HistNextRandom)]_ivars

\* the oracle's own sanity: the exact model interpolates the recorded values
Recorded == \* value recorded for each current point, reconstructed from the history
  LET RECURSIVE Val(_, _)
      Val(i, t) == IF t = 1 THEN hist[1].r[i]
                   ELSE IF hist[t].k = i THEN hist[t].f ELSE Val(i, t - 1)

  IN [i \in 1..Len(P) |-> Val(i, Len(hist))]
Interpolates == hist # <<>> => \A i \in 1..Len(P) :
                  Recorded[i] = Pred \/ EvalModel(q, P[i]) = <<Recorded[i], 1>>

ExportHist == Len(hist) > MaxHist => PrintT("EXPORT " \o ToJson([P |-> P, q |-> q, hist |-> hist]))
=============================================================================
