----------------------------- MODULE Reentrancy -----------------------------
(***************************************************************************)
(* Property C11, design level: minimize keeps no state between calls, so   *)
(* calls may overlap (nested, or from several threads) without influencing *)
(* each other.                                                             *)
(*                                                                         *)
(* N runs execute concurrently; a run alternates                           *)
(*   Configure   (stores its solver constants)                             *)
(*   Check       (is the interpolation system cached for my point set?)    *)
(*   Use         (take the cached factorisation, or build and store it)    *)
(*   Read        (an update rule reads a solver constant)                  *)
(* Where the state lives is a parameter: per run (the tree as it is) or    *)
(* shared (named deviations: the module-level cache of releases before     *)
(* 1.1.3; a class-level constants dictionary).  Non-interference: every    *)
(* factorisation a run uses belongs to its own point set and every         *)
(* constant it reads is its own.  TLC explores all interleavings; with a   *)
(* shared store the invariant must fail (sanity of the model).             *)
(***************************************************************************)
EXTENDS Integers, Sequences, FiniteSets, TLC

CONSTANTS N, Steps, SharedCache, SharedConstants

VARIABLES pc, step, key, hit, cache, consts, used, readc
rvars == <<pc, step, key, hit, cache, consts, used, readc>>
Runs == 1..N
Store(r) == IF SharedCache THEN 0 ELSE r          \* which cache a run talks to
CStore(r) == IF SharedConstants THEN 0 ELSE r

\* the point set of run r at its s-th step (distinct runs work on distinct sets)
KeyOf(r, s) == 10 * r + s
Fact(k) == 1000 + k                                 \* the factorisation of point set k

RInit == /\ pc = [r \in Runs |-> "configure"] /\ step = [r \in Runs |-> 1]
         /\ key = [r \in Runs |-> KeyOf(r, 1)] /\ hit = [r \in Runs |-> FALSE]
         /\ cache = [s \in 0..N |-> [k |-> 0, v |-> 0]]
         /\ consts = [s \in 0..N |-> 0]
         /\ used = [r \in Runs |-> <<>>] /\ readc = [r \in Runs |-> <<>>]

Configure(r) == /\ pc[r] = "configure"
                /\ consts' = [consts EXCEPT ![CStore(r)] = r]
                /\ pc' = [pc EXCEPT ![r] = "check"]
                /\ UNCHANGED <<step, key, hit, cache, used, readc>>
Check(r) == /\ pc[r] = "check"
            /\ hit' = [hit EXCEPT ![r] = (cache[Store(r)].k = key[r])]
            /\ pc' = [pc EXCEPT ![r] = "use"]
            /\ UNCHANGED <<step, key, cache, consts, used, readc>>
Use(r) == /\ pc[r] = "use"
          /\ IF hit[r]
             THEN /\ used' = [used EXCEPT ![r] = Append(@, <<key[r], cache[Store(r)].v>>)]
                  /\ UNCHANGED cache
             ELSE /\ cache' = [cache EXCEPT ![Store(r)] = [k |-> key[r], v |-> Fact(key[r])]]
                  /\ used' = [used EXCEPT ![r] = Append(@, <<key[r], Fact(key[r])>>)]
          /\ pc' = [pc EXCEPT ![r] = "read"]
          /\ UNCHANGED <<step, key, hit, consts, readc>>
Read(r) == /\ pc[r] = "read"
           /\ readc' = [readc EXCEPT ![r] = Append(@, consts[CStore(r)])]
           \* the same point set is solved twice in a row (cache hit) every other step
           /\ IF step[r] >= Steps THEN pc' = [pc EXCEPT ![r] = "done"] /\ UNCHANGED <<step, key>>
              ELSE /\ pc' = [pc EXCEPT ![r] = "check"]
                   /\ step' = [step EXCEPT ![r] = @ + 1]
                   /\ key' = [key EXCEPT ![r] = IF step[r] % 2 = 1 THEN @ ELSE KeyOf(r, step[r] + 1)]
           /\ UNCHANGED <<hit, cache, consts, used>>

RNext == \E r \in Runs : Configure(r) \/ Check(r) \/ Use(r) \/ Read(r)
RSpec == RInit /\ [][RNext]_rvars /\ WF_rvars(RNext)

NonInterference ==
  \A r \in Runs :
     /\ \A i \in 1..Len(used[r]) : used[r][i][2] = Fact(used[r][i][1])
     /\ \A i \in 1..Len(readc[r]) : readc[r][i] = r
AllFinish == <>(\A r \in Runs : pc[r] = "done")
=============================================================================
