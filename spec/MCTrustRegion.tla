--------------------------- MODULE MCTrustRegion ---------------------------
(* Model-checking wrapper for TrustRegion.tla: the constant lattices.       *)
EXTENDS TrustRegion
\* lengths in units of 2^-12: 4096 = 1.0
RB  == {4096, 16384}
RE  == {0, 1, 16, 1024, 4096}
DRF == {<<1, 2>>, <<1, 4>>, <<3, 4>>}
IRF == {<<3, 2>>, <<2, 1>>}
IRT == {<<2, 1>>, <<3, 2>>}
DRT == {<<5, 4>>, <<11, 8>>}
DRESF == {<<1, 8>>, <<1, 2>>, <<1, 16>>}
LARGE == {<<2, 1>>, <<16, 1>>, <<256, 1>>}
MOD   == {<<2, 1>>, <<16, 1>>}
\* the default-like dyadic configuration only
DRF1 == {<<1, 2>>}
IRF1 == {<<3, 2>>}
IRT1 == {<<2, 1>>}
DRT1 == {<<11, 8>>}
DRESF1 == {<<1, 8>>}
LARGE1 == {<<256, 1>>}
MOD1 == {<<16, 1>>}
=============================================================================
