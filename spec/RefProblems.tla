---------------------------- MODULE RefProblems ----------------------------
(***************************************************************************)
(* Property C04: reference problems whose exact solution is known          *)
(* independently, because each instance is GENERATED FROM ITS SOLUTION     *)
(* with integer data, and the optimality certificate is checked by TLC in  *)
(* exact integer arithmetic (ASSUME Certified), so the oracle is machine   *)
(* checked rather than trusted.                                            *)
(*                                                                         *)
(* Families (x* = xs / 2 componentwise, data of order one, cond(H) <= 100) *)
(*  unc  min 1/2 x'Hx + g'x                      g = -H x*                 *)
(*  bnd  ... s.t. lb <= x <= ub                  g = -H x* + mu, mu_i >= 0 *)
(*       on active lower bounds, <= 0 on active upper bounds, 0 elsewhere  *)
(*       (solution interior / on a face / at a vertex)                     *)
(*  leq  ... s.t. A x = b                        g = -H x* - A'nu, b = A x**)
(*  int  one variable, h/2 (x - t)^2 over the interval cut out by bounds   *)
(*       and up to two linear inequalities a x <= c with a in {+-1, +-2}   *)
(*  ball min g'x s.t. |x - c|^2 <= r^2 with a Pythagorean g: x* = c - r g/|g| *)
(* All quantities below are integers: vectors in halves (suffix 2 = twice  *)
(* the value), so the harness only divides by two.                         *)
(***************************************************************************)
EXTENDS Integers, Sequences, FiniteSets, TLC, Json, IOUtils, SequencesExt

RECURSIVE SumTo(_, _)
SumTo(f, m) == IF m = 0 THEN 0 ELSE f[m] + SumTo(f, m - 1)
Dot(a, b) == SumTo([i \in 1..Len(a) |-> a[i] * b[i]], Len(a))
MatVec(M, v) == [i \in 1..Len(M) |-> Dot(M[i], v)]
Transpose(A, n) == [j \in 1..n |-> [i \in 1..Len(A) |-> A[i][j]]]

\* integer symmetric positive definite matrices, condition number <= 100
HMat(kind, n) == [a \in 1..n |-> [b \in 1..n |->
   CASE kind = "id"    -> IF a = b THEN 1 ELSE 0
     [] kind = "diag"  -> IF a = b THEN (IF a % 2 = 1 THEN 1 ELSE 8) ELSE 0
     [] kind = "diag64"-> IF a = b THEN (IF a = 1 THEN 64 ELSE 1) ELSE 0
     [] kind = "tri"   -> IF a = b THEN 2 ELSE IF a - b \in {-1, 1} THEN -1 ELSE 0
     [] kind = "dense" -> IF a = b THEN n + 1 ELSE 1 ]]
HKinds == {"id", "diag", "diag64", "tri", "dense"}

\* solution patterns (in halves): a few integer / half-integer vectors per dimension
XS(n) == { [i \in 1..n |-> v] : v \in {0, 1} } \cup
         { [i \in 1..n |-> IF i % 2 = 1 THEN 3 ELSE -2] } \cup { [i \in 1..n |-> i - 3] }

\* activity pattern per coordinate: "in" (strictly inside), "lo" (on lower), "up" (on upper)
Acts(n) == {p \in [1..n -> {"in", "lo", "up"}] :
              \/ \A i \in 1..n : p[i] = "in"                       \* interior
              \/ (p[1] # "in" /\ \A i \in 2..n : p[i] = "in")      \* one face
              \/ \A i \in 1..n : p[i] # "in"                       \* vertex
              \/ (n >= 3 /\ p[1] = "lo" /\ p[2] = "up" /\ \A i \in 3..n : p[i] = "in")}

Unc(n, hk, xs) ==
  LET H == HMat(hk, n) IN
  [fam |-> "unc", n |-> n, hk |-> hk, H |-> H, xs2 |-> xs, g2 |-> [i \in 1..n |-> -MatVec(H, xs)[i]]]

Bnd(n, hk, xs, act, mu) ==    \* mu: multiplier magnitude in halves (>= 1) on active bounds
  LET H == HMat(hk, n)
      m2 == [i \in 1..n |-> IF act[i] = "lo" THEN mu ELSE IF act[i] = "up" THEN -mu ELSE 0]
  IN [fam |-> "bnd", n |-> n, hk |-> hk, H |-> H, xs2 |-> xs, act |-> act,
      g2 |-> [i \in 1..n |-> -MatVec(H, xs)[i] + m2[i]],
      lb2 |-> [i \in 1..n |-> IF act[i] = "lo" THEN xs[i] ELSE xs[i] - 3],
      ub2 |-> [i \in 1..n |-> IF act[i] = "up" THEN xs[i] ELSE xs[i] + 5],
      mu2 |-> m2]

AMat(k, n) == \* k = 1 or 2 rows of small integers, full row rank
  IF k = 1 THEN << [j \in 1..n |-> 1] >>
  ELSE << [j \in 1..n |-> 1], [j \in 1..n |-> IF j % 2 = 1 THEN 1 ELSE -1] >>
Leq(n, hk, xs, k, nu) ==
  LET H == HMat(hk, n)
      A == AMat(k, n)
      An == MatVec(Transpose(A, n), [i \in 1..k |-> nu])     \* A' nu  (nu in halves)
  IN [fam |-> "leq", n |-> n, hk |-> hk, H |-> H, xs2 |-> xs, A |-> A, nu2 |-> [i \in 1..k |-> nu],
      g2 |-> [i \in 1..n |-> -MatVec(H, xs)[i] - An[i]],
      b2 |-> MatVec(A, xs)]

\* one variable: f = h/2 (x - t)^2, bounds [lb, ub] (halves), rows a x <= c  (c in halves)
Clip(v, lo, hi) == IF v < lo THEN lo ELSE IF v > hi THEN hi ELSE v
Int1(h, t2, lb2, ub2, rows) ==
  \* feasible interval in quarters to keep a = +-2 exact: x4 = 4x
  LET lo4 == LET S == {2 * lb2} \cup {(2 * r[2]) \div r[1] : r \in {r \in rows : r[1] < 0}}
             IN CHOOSE m \in S : \A s \in S : s <= m
      hi4 == LET S == {2 * ub2} \cup {(2 * r[2]) \div r[1] : r \in {r \in rows : r[1] > 0}}
             IN CHOOSE m \in S : \A s \in S : m <= s
  IN [fam |-> "int", n |-> 1, h |-> h, t2 |-> t2, lb2 |-> lb2, ub2 |-> ub2, rows |-> SetToSeq(rows),
      lo4 |-> lo4, hi4 |-> hi4, xs4 |-> Clip(2 * t2, lo4, hi4), feasible |-> lo4 <= hi4]

\* linear objective over a ball: g Pythagorean with integer norm gn; x* = c - r g / gn
Pyth == { <<3, 4, 5>>, <<-4, 3, 5>>, <<5, -12, 13>>, <<0, -2, 2>>, <<-1, 0, 1>> }
Pyth3 == { <<1, 2, 2, 3>>, <<-2, 3, 6, 7>> }
Ball(n, g, gn, c2, r) ==      \* r multiple of gn so that x* is in halves:  xs2 = c2 - 2 r g / gn
  [fam |-> "ball", n |-> n, g |-> g, gn |-> gn, c2 |-> c2, r |-> r,
   xs2 |-> [i \in 1..n |-> c2[i] - (2 * r * g[i]) \div gn]]

Dists == {1, 10, 50, 500}          \* distance of the start from x* in tenths
Dirs(n) == { [i \in 1..n |-> 1], [i \in 1..n |-> IF i = 1 THEN -1 ELSE 0],
             [i \in 1..n |-> IF i % 2 = 1 THEN 1 ELSE -2] }

Family(id) ==
  CASE id = "unc" -> UNION {{Unc(n, hk, xs) : hk \in HKinds, xs \in XS(n)} : n \in 1..5}
    [] id = "bnd" -> UNION {{Bnd(n, hk, xs, act, mu) : hk \in HKinds, xs \in XS(n), act \in Acts(n), mu \in {1, 4}}
                            : n \in 1..4}
    [] id = "bnd5" -> {Bnd(5, hk, xs, act, 2) : hk \in {"diag", "tri"}, xs \in XS(5), act \in Acts(5)}
    [] id = "leq" -> UNION {{Leq(n, hk, xs, k, nu) : hk \in HKinds, xs \in XS(n), k \in {1, 2}, nu \in {-3, 0, 2}}
                            : n \in 2..5}
    [] id = "int" -> {Int1(h, t2, lb2, ub2, rows) : h \in {1, 4}, t2 \in {-9, -1, 0, 2, 7},
                        lb2 \in {-6, -1}, ub2 \in {2, 5},
                        rows \in {{}, {<<1, 1>>}, {<<-1, 1>>}, {<<2, 3>>}, {<<-2, 1>>}, {<<1, 4>>, <<-1, 2>>},
                                  {<<2, 1>>, <<-1, 3>>}, {<<-2, -1>>, <<1, 3>>}}}
    [] id = "ball" -> {Ball(2, <<p[1], p[2]>>, p[3], c2, m * p[3]) : p \in Pyth, c2 \in {<<0, 0>>, <<2, -1>>},
                         m \in {1, 2}}
                \cup {Ball(3, <<p[1], p[2], p[3]>>, p[4], c2, p[4]) : p \in Pyth3, c2 \in {<<0, 0, 0>>, <<1, 1, -2>>}}

WF(p) == (p.fam \in {"unc", "bnd", "leq"} => Len(p.xs2) = p.n) /\ (p.fam = "bnd" => Len(p.act) = p.n)
         /\ (p.fam = "int" => p.feasible)

\* the optimality certificate, in exact integer arithmetic (everything in halves)
Certified(p) ==
  CASE p.fam = "unc" -> \A i \in 1..p.n : MatVec(p.H, p.xs2)[i] + p.g2[i] = 0
    [] p.fam = "bnd" ->
         /\ \A i \in 1..p.n : p.lb2[i] <= p.xs2[i] /\ p.xs2[i] <= p.ub2[i]
         /\ \A i \in 1..p.n :
              LET gr == MatVec(p.H, p.xs2)[i] + p.g2[i]          \* twice the gradient at x*
              IN /\ (p.xs2[i] > p.lb2[i] /\ p.xs2[i] < p.ub2[i]) => gr = 0
                 /\ p.xs2[i] = p.lb2[i] => gr >= 0
                 /\ p.xs2[i] = p.ub2[i] => gr <= 0
    [] p.fam = "leq" ->
         /\ MatVec(p.A, p.xs2) = p.b2
         /\ \A i \in 1..p.n : MatVec(p.H, p.xs2)[i] + p.g2[i]
                               + MatVec(Transpose(p.A, p.n), p.nu2)[i] = 0
    [] p.fam = "int" ->
         /\ p.lo4 <= p.xs4 /\ p.xs4 <= p.hi4
         /\ \A r \in {p.rows[i] : i \in 1..Len(p.rows)} : r[1] * p.xs4 <= 2 * r[2]
         /\ 2 * p.lb2 <= p.xs4 /\ p.xs4 <= 2 * p.ub2
         \* x* is the feasible point closest to t
         /\ (p.xs4 < 2 * p.t2 => p.xs4 = p.hi4) /\ (p.xs4 > 2 * p.t2 => p.xs4 = p.lo4)
    [] p.fam = "ball" ->
         /\ Dot(p.g, p.g) = p.gn * p.gn
         \* on the sphere: |xs2 - c2|^2 = (2 r)^2, and x* - c = -(r / gn) g
         /\ Dot([i \in 1..p.n |-> p.xs2[i] - p.c2[i]], [i \in 1..p.n |-> p.xs2[i] - p.c2[i]]) = 4 * p.r * p.r
         /\ \A i \in 1..p.n : (p.xs2[i] - p.c2[i]) * p.gn = -2 * p.r * p.g[i]

Universe(id) == {p \in Family(id) : WF(p)}

EmitOK ==
  IF "UNIVERSE_OUT" \in DOMAIN IOEnv
  THEN LET U == Universe(IOEnv.UNIVERSE_ID)
       IN /\ \A p \in U : Certified(p)
          /\ JsonSerialize(IOEnv.UNIVERSE_OUT, SetToSeq(U))
          /\ PrintT(<<"UNIVERSE", IOEnv.UNIVERSE_ID, Cardinality(U)>>)
  ELSE TRUE
ASSUME EmitOK

(* ------------------------------------------------- validation of outcomes *)
NaN == -1000000
Le(a, b) == a # NaN /\ b # NaN /\ a <= b
Sel(c, name) == IF c THEN {} ELSE {name}
\* r: id, raised, status, success, dist / distTol, maxcv / tol (keys)
FailedRun(r) ==
     Sel(r.raised = "none", "C04.raise")
\cup (IF r.raised # "none" THEN {} ELSE
         Sel(r.status = 0, "C04.status")
    \cup Sel(r.success, "C04.success")
    \cup Sel(Le(r.maxcv, r.tol), "C04.feasible")
    \cup Sel(Le(r.dist, r.distTol), "C04.distance"))

Outcomes == JsonDeserialize(IOEnv.OUTCOME_FILE)
VARIABLE i
OInit == i = 0
ONext == /\ i < Len(Outcomes)
         /\ i' = i + 1
         /\ LET f == FailedRun(Outcomes[i + 1])
            IN f # {} => PrintT(<<"OUTCOME", Outcomes[i + 1].id, f>>)
OSpec == OInit /\ [][ONext]_i
=============================================================================
