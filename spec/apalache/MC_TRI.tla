------------------------------ MODULE MC_TRI ------------------------------
EXTENDS Integers
\* decrease_radius_threshold = 11/8, decrease_resolution_factor = 1/8 (dyadic default-like values)
DrtP == 11
DrtQ == 8
P == 1
Q == 8
Clamp == TRUE
VARIABLES
  \* @type: Int;
  radius,
  \* @type: Int;
  resol,
  \* @type: Int;
  rhoend
INSTANCE TrustRegionInd
=============================================================================
