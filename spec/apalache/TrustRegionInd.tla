--------------------------- MODULE TrustRegionInd ---------------------------
(***************************************************************************)
(* Property C18, unbounded: radius_final <= resolution <= radius is an     *)
(* INDUCTIVE invariant of the radius-management rules, for lengths that    *)
(* are arbitrary integers (no lattice bound, no bound on the number of     *)
(* steps).  Checked with Apalache:                                         *)
(*   apalache-mc check --init=IndInit --inv=IndInv --length=1 ...          *)
(*   apalache-mc check --init=Init    --inv=IndInv --length=0 ...          *)
(* Abstraction: whatever value an update rule computes for the radius, it  *)
(* goes through the setter, which snaps to the resolution when the value   *)
(* is at most decrease_radius_threshold (= DrtP / DrtQ > 1) times the      *)
(* resolution.  enhance_resolution: regime 1 multiplies by                 *)
(* decrease_resolution_factor (= P / Q < 1) and clamps at radius_final     *)
(* (the repaired rule; Clamp = FALSE is the original one, for which the    *)
(* induction step fails); regime 2 (geometric mean) and regime 3           *)
(* (radius_final) give a value between radius_final and the resolution.    *)
(***************************************************************************)
EXTENDS Integers

CONSTANTS
  \* @type: Int;
  DrtP,
  \* @type: Int;
  DrtQ,
  \* @type: Int;
  P,
  \* @type: Int;
  Q,
  \* @type: Bool;
  Clamp

VARIABLES
  \* @type: Int;
  radius,
  \* @type: Int;
  resol,
  \* @type: Int;
  rhoend

ConstOK == DrtQ > 0 /\ DrtP > DrtQ /\ 0 < P /\ P < Q

Snap(x) == IF DrtQ * x <= DrtP * resol THEN resol ELSE x

\* update_radius and the short-step reduction: any positive value through the setter
SetRadius == /\ resol' = resol /\ rhoend' = rhoend
             /\ \E x \in Int : x > 0 /\ radius' = Snap(x)

Max(a, b) == IF a >= b THEN a ELSE b

Enhance ==
  /\ resol > rhoend
  /\ rhoend' = rhoend
  /\ \E r \in Int, nr \in Int, y \in Int :
       /\ \/ (Q * r = P * resol /\ nr = (IF Clamp THEN Max(r, rhoend) ELSE r))      \* regime 1
          \/ (rhoend <= r /\ r <= resol /\ nr = r)                                   \* regimes 2 and 3
       /\ 0 <= y /\ y <= radius                          \* decrease_radius_factor * radius
       /\ resol' = nr
       /\ radius' = Max(y, nr)

Next == SetRadius \/ Enhance

Init == /\ rhoend \in Int /\ resol \in Int /\ radius = resol
        /\ ConstOK /\ rhoend >= 0 /\ resol > 0 /\ resol >= rhoend
IndInv == ConstOK /\ 0 <= rhoend /\ rhoend <= resol /\ resol <= radius
IndInit == /\ rhoend \in Int /\ resol \in Int /\ radius \in Int
           /\ IndInv
=============================================================================
