----------------------------- MODULE InterpBook -----------------------------
(***************************************************************************)
(* Property C12, bookkeeping part: which evaluation occupies which slot of *)
(* the interpolation set, and which value is recorded for it, under every  *)
(* sequence of replacements, near-duplicate replacements, base shifts and  *)
(* model resets.                                                           *)
(*                                                                         *)
(* Points are abstract identifiers (the replayer gives them coordinates:   *)
(* a new point is some interpolation point plus a direction of a fixed     *)
(* direction table times a radius; a near-duplicate is an existing point   *)
(* plus 1e-9, the way to reach the ill-conditioned branch of the update).  *)
(*   pt[k]   the point held by slot k                                      *)
(*   rec[k]  the evaluation whose values are recorded for slot k           *)
(*   base    the point the models are expanded around                      *)
(* Invariant (C12): rec = pt -- the recorded value of a slot is the value  *)
(* measured at that very point -- and the slots hold distinct points.      *)
(* Behaviours are exported (-simulate) and replayed into a real Models     *)
(* object; after every action the real arrays must equal these tables and  *)
(* every model must reproduce every recorded value.                        *)
(***************************************************************************)
EXTENDS Integers, Sequences, FiniteSets, TLC, Json

CONSTANTS Npt, NDirs, MaxLen, NModels

VARIABLES pt, rec, base, nextId, hist, gen
bvars == <<pt, rec, base, nextId, hist, gen>>
\* gen[m]: how many symmetric Broyden updates model m (objective = 1, then the constraint models) has
\* received: every replacement updates EVERY model exactly once, whatever the conditioning

BInit == /\ pt = [k \in 1..Npt |-> k] /\ rec = [k \in 1..Npt |-> k]
         /\ base = 1 /\ nextId = Npt + 1 /\ hist = <<>>
         /\ gen = [m \in 1..NModels |-> 0]

Replace(k, from, d) ==
  /\ pt' = [pt EXCEPT ![k] = nextId] /\ rec' = [rec EXCEPT ![k] = nextId]
  /\ nextId' = nextId + 1 /\ UNCHANGED base
  /\ gen' = [m \in 1..NModels |-> gen[m] + 1]
  /\ hist' = Append(hist, [a |-> "replace", k |-> k, from |-> pt[from], d |-> d, id |-> nextId])

ReplaceNear(k, j) ==
  /\ k # j
  /\ pt' = [pt EXCEPT ![k] = nextId] /\ rec' = [rec EXCEPT ![k] = nextId]
  /\ nextId' = nextId + 1 /\ UNCHANGED base
  /\ gen' = [m \in 1..NModels |-> gen[m] + 1]
  /\ hist' = Append(hist, [a |-> "near", k |-> k, from |-> pt[j], d |-> 0, id |-> nextId])

Shift(j) ==
  /\ base' = pt[j] /\ UNCHANGED <<pt, rec, nextId, gen>>
  /\ hist' = Append(hist, [a |-> "shift", k |-> j, from |-> pt[j], d |-> 0, id |-> 0])

Reset ==
  /\ UNCHANGED <<pt, rec, base, nextId>>
  /\ gen' = [m \in 1..NModels |-> 0]          \* the models are rebuilt
  /\ hist' = Append(hist, [a |-> "reset", k |-> 0, from |-> 0, d |-> 0, id |-> 0])

\* arguments drawn at random and bound once (quantification over singletons)
BNext ==
  /\ Len(hist) < MaxLen
  /\ \E w \in {RandomElement(1..20)}, k \in {RandomElement(1..Npt)}, j \in {RandomElement(1..Npt)},
        d \in {RandomElement(1..NDirs)} :
       IF w <= 12 THEN Replace(k, j, d)
       ELSE IF w <= 15 THEN (IF k # j THEN ReplaceNear(k, j) ELSE Replace(k, j, d))
       ELSE IF w <= 18 THEN Shift(j)
       ELSE Reset
BSpec == BInit /\ [][BNext]_bvars

Recorded == rec = pt
Distinct == \A a, b \in 1..Npt : a # b => pt[a] # pt[b]
SameGeneration == \A m \in 1..NModels : gen[m] = gen[1]
Export == Len(hist) = MaxLen => PrintT("EXPORT " \o ToJson([npt |-> Npt, hist |-> hist, pt |-> pt, base |-> base, gen |-> gen]))
=============================================================================
