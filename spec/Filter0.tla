------------------------------ MODULE Filter0 -------------------------------
(***************************************************************************)
(* The evaluation record of a run, the filter of non-dominated evaluations *)
(* and the rule that selects the point to return (property C03; also used  *)
(* by C20: the callback receives that very point after every evaluation).  *)
(*                                                                         *)
(* Two things are kept strictly apart:                                     *)
(*  - Insert / Remove / Evict / BestOfRetained are IMPLEMENTATION-SHAPED:  *)
(*    they transcribe what Problem.__call__ and Problem.best_eval do, one  *)
(*    operator per code block, so that behaviours of this module can be    *)
(*    replayed step by step into a real Problem object;                    *)
(*  - Acceptable is written FROM THE STATEMENT of C03 only.  It is a       *)
(*    relation, not a function: where the statement leaves a choice, every *)
(*    choice is accepted.                                                  *)
(* The theorem checked by TLC is that the former always satisfies the      *)
(* latter; the binding checks (replay / trace validation) evaluate         *)
(* Acceptable on what the real code selected.                              *)
(***************************************************************************)
EXTENDS ExtReal, TLC

(* --- pure operators over explicit sequences, shared with trace specs --- *)

\* F, CV: sequences of keys indexed by evaluation id 1..N.  M: merit keys for
\* the penalty in force (f + penalty * cv, IEEE), same indexing.
\* fin(k): "k is a finite value" (differs between key spaces).

Feasible(CV, tol, i) == Le(CV[i], tol)

\* j dominates s (NaN-aware): at least as good in both, strictly better in one
Dominates(F, CV, j, s) ==
  /\ BetterEq(F[j], F[s]) /\ BetterEq(CV[j], CV[s])
  /\ (Better(F[j], F[s]) \/ Better(CV[j], CV[s]))

DefinedMerit(F, CV, fin(_), i) == ~IsNaN(F[i]) /\ fin(CV[i])

\* The relation of C03.  ids: the set of evaluations among which the point is
\* selected (all evaluations for an unbounded filter, the retained ones else).
Acceptable(sel, ids, F, CV, M, tol, fin(_)) ==
  LET GoodFeas == {i \in ids : Feasible(CV, tol, i) /\ ~IsNaN(F[i])}
      AnyFeas  == \E i \in ids : Feasible(CV, tol, i)
      Merits   == {i \in ids : DefinedMerit(F, CV, fin, i) /\ ~IsNaN(M[i])}
  IN /\ sel \in ids
     /\ IF GoodFeas # {}
        THEN \* (A) feasible with a defined objective value: least objective,
             \*     ties to the least violation
             /\ sel \in GoodFeas
             /\ \A j \in GoodFeas : Le(F[sel], F[j])
             /\ \A j \in GoodFeas : Eq(F[j], F[sel]) => Le(CV[sel], CV[j])
        ELSE \* (B) not dominated by any evaluation; and when nothing is
             \*     feasible, least merit among the defined merits
             /\ \A j \in ids : ~Dominates(F, CV, j, sel)
             /\ (~AnyFeas /\ Merits # {}) =>
                   /\ sel \in Merits
                   /\ \A j \in Merits : Le(M[sel], M[j])
                   \* documented tie rule: least violation, then least objective
                   /\ \A j \in Merits : Eq(M[j], M[sel]) => Le(CV[sel], CV[j])
                   /\ \A j \in Merits : (Eq(M[j], M[sel]) /\ Eq(CV[j], CV[sel])) => Le(F[sel], F[j])

(* --- the implementation-shaped filter ---------------------------------- *)

\* Problem.__call__: "Add the point to the filter if it is not dominated"
\* rule = "nanaware" is the tree as repaired; rule = "pinned" is the original
\* comparison (kept as a named deviation: TLC must find its counterexample).
Include(rule, F, CV, flt, f, cv) ==
  IF IsNaN(f) /\ IsNaN(cv) THEN flt = <<>>
  ELSE IF IsNaN(f) THEN
    \A k \in DOMAIN flt :
       (IsNaN(F[flt[k]]) /\ Lt(cv, CV[flt[k]])) \/ IsNaN(CV[flt[k]])
  ELSE IF IsNaN(cv) THEN
    \A k \in DOMAIN flt :
       (IsNaN(CV[flt[k]]) /\ Lt(f, F[flt[k]])) \/ IsNaN(F[flt[k]])
  ELSE
    \A k \in DOMAIN flt :
       \/ Lt(f, F[flt[k]]) \/ Lt(cv, CV[flt[k]])
       \/ (rule = "nanaware" /\ (IsNaN(F[flt[k]]) \/ IsNaN(CV[flt[k]])))

\* "Remove the points in the filter that are dominated by the new point"
Removed(F, CV, k, f, cv) ==
  IF IsNaN(f) THEN IsNaN(F[k])
  ELSE IF IsNaN(cv) THEN IsNaN(CV[k])
  ELSE IsNaN(F[k]) \/ IsNaN(CV[k]) \/ (Le(f, F[k]) /\ Le(cv, CV[k]))

SelectSeq2(s, Test(_)) == SelectSeq(s, Test)

\* the filter after recording evaluation number id (values f, cv);
\* size = 0 means unbounded
FilterAfter(rule, F, CV, flt, id, f, cv, size) ==
  IF ~Include(rule, F, CV, flt, f, cv) THEN flt
  ELSE LET kept == SelectSeq(flt, LAMBDA k : ~Removed(F, CV, k, f, cv))
           ext  == Append(kept, id)
       IN IF size > 0 /\ Len(ext) > size THEN Tail(ext) ELSE ext

\* Problem.best_eval, block by block.  flt: retained ids in insertion order;
\* "most recent" = last position in flt.
LastOf(flt, S) == \* the id at the largest position of flt whose id is in S
  flt[CHOOSE p \in DOMAIN flt : flt[p] \in S /\
          \A q \in DOMAIN flt : flt[q] \in S => q <= p]

BestOfRetained(F, CV, M, flt, tol, fin(_)) ==
  LET ids     == SeqRange(flt)
      finite  == {i \in ids : fin(CV[i])}
      feas    == {i \in ids : Le(CV[i], tol)}
      feasDef == {i \in feas : ~IsNaN(F[i])}
  IN IF finite # {} THEN
       IF feasDef # {} THEN
         LET fmin == NanMin({F[i] : i \in feas})
             c1   == {i \in feas : Le(F[i], fmin)}
             c2   == IF Cardinality(c1) > 1
                     THEN {i \in c1 : \A j \in c1 : Le(CV[i], CV[j])} ELSE c1
         IN LastOf(flt, c2)
       ELSE IF feas # {} THEN LastOf(flt, feas)
       ELSE
         LET mer == [i \in ids |-> IF i \in finite THEN M[i] ELSE NaN]
             def == {i \in ids : ~IsNaN(mer[i])}
         IN IF def = {} THEN
              LET cmin == NanMin({CV[i] : i \in ids})
              IN LastOf(flt, {i \in ids : Le(CV[i], cmin)})
            ELSE
              LET mmin == NanMin({mer[i] : i \in def})
                  c1 == {i \in def : Le(mer[i], mmin)}
                  c2 == IF Cardinality(c1) > 1
                        THEN {i \in c1 : \A j \in c1 : Le(CV[i], CV[j])} ELSE c1
                  c3 == IF Cardinality(c2) > 1
                        THEN {i \in c2 : \A j \in c2 : Le(F[i], F[j])} ELSE c2
              IN LastOf(flt, c3)
     ELSE IF \E i \in ids : ~IsNaN(F[i]) THEN
       LET fmin == NanMin({F[i] : i \in ids})
       IN LastOf(flt, {i \in ids : Le(F[i], fmin)})
     ELSE flt[Len(flt)]
=============================================================================
