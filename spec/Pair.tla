-------------------------------- MODULE Pair --------------------------------
(***************************************************************************)
(* Pairs of runs consumed in lock-step against one script: "same sequence  *)
(* of evaluated points and same result" (properties C10, C11, C20).        *)
(*                                                                         *)
(* A pair = [id, mode, exact, a, b] where a is the script (the reference   *)
(* run) and b the run under scrutiny, both projected by the harness to     *)
(*   steps : sequence of [x, f, cv]   (user-space point, objective value,  *)
(*           the solver's violation of every completed evaluation)         *)
(*   res   : [raised, status, success, x, f, cv, nfev, nit, hf, hc]        *)
(*           (hf / hc: the returned fun_history / maxcv_history, empty     *)
(*           when the history is not stored)                               *)
(* Values are order keys in ONE key space per pair, so key equality is bit *)
(* equality of the doubles.  exact = FALSE allows the banded comparison    *)
(* (keys xlo / xhi of the script bracket the other run's coordinates).     *)
(***************************************************************************)
EXTENDS Integers, Sequences, FiniteSets, TLC, Json, IOUtils

Pairs == JsonDeserialize(IOEnv.PAIR_FILE)

SameSeq(u, w) == Len(u) = Len(w) /\ \A i \in DOMAIN u : u[i] = w[i]
Within(lo, v, hi) == Len(lo) = Len(v) /\ \A i \in DOMAIN v : lo[i] <= v[i] /\ v[i] <= hi[i]

StepSame(p, i) ==
  IF p.exact
  THEN /\ SameSeq(p.a.steps[i].x, p.b.steps[i].x)
       /\ p.a.steps[i].f = p.b.steps[i].f /\ p.a.steps[i].cv = p.b.steps[i].cv
  ELSE /\ Within(p.a.steps[i].xlo, p.b.steps[i].x, p.a.steps[i].xhi)
       /\ p.a.steps[i].flo <= p.b.steps[i].f /\ p.b.steps[i].f <= p.a.steps[i].fhi

FirstDiff(p) ==
  LET n == IF Len(p.a.steps) <= Len(p.b.steps) THEN Len(p.a.steps) ELSE Len(p.b.steps)
      D == {i \in 1..n : ~StepSame(p, i)}
  IN IF D = {} THEN (IF Len(p.a.steps) = Len(p.b.steps) THEN 0 ELSE n + 1)
     ELSE CHOOSE i \in D : \A j \in D : i <= j

ResSame(p) ==
  /\ p.a.res.raised = p.b.res.raised /\ p.a.res.status = p.b.res.status
  /\ p.a.res.success = p.b.res.success /\ p.a.res.nfev = p.b.res.nfev
  /\ (p.exact => (/\ SameSeq(p.a.res.x, p.b.res.x) /\ p.a.res.f = p.b.res.f
                  /\ p.a.res.cv = p.b.res.cv /\ p.a.res.nit = p.b.res.nit))
  \* C11: a repeated / nested / concurrent call returns the same histories (no entry of another call)
  /\ ((p.exact /\ p.prop = "C11") => (/\ SameSeq(p.a.res.hf, p.b.res.hf) /\ SameSeq(p.a.res.hc, p.b.res.hc)))
  /\ (~p.exact => Within(p.a.res.xlo, p.b.res.x, p.a.res.xhi))

Sel(c, name) == IF c THEN {} ELSE {name}
FailedPair(p) ==
     Sel(FirstDiff(p) = 0, p.prop \o ".sequence")
\cup Sel(ResSame(p), p.prop \o ".result")
\cup Sel(p.pure, p.prop \o ".pure")

VARIABLE i
PInit == i = 0
PNext == /\ i < Len(Pairs)
         /\ i' = i + 1
         /\ LET f == FailedPair(Pairs[i + 1])
            IN f # {} => PrintT(<<"PAIR", Pairs[i + 1].id, f, FirstDiff(Pairs[i + 1])>>)
PSpec == PInit /\ [][PNext]_i
=============================================================================
