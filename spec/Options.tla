------------------------------ MODULE Options ------------------------------
(***************************************************************************)
(* Property C19: options and constants are validated and completed         *)
(* consistently.  The rules below are transcribed from the documentation   *)
(* of minimize (domains, coupling relations, defaults), not from the code. *)
(*                                                                         *)
(* Two uses:                                                               *)
(*  1. ASSUME-time enumeration of the universe of configurations (which    *)
(*     settings are supplied, at which position of the boundary lattice of *)
(*     their domain) -> JSON, instantiated by harness/c19.py;              *)
(*  2. validation of the observed outcomes: the harness calls minimize for *)
(*     every configuration, records whether ValueError was raised, the     *)
(*     settings as completed by the solver (captured where they are handed *)
(*     to the trust-region framework), warnings and the evaluation         *)
(*     sequence digest; values are order keys in a key space that contains *)
(*     the reference values 0, 1, n+1, (n+1)(n+2)/2 and the defaults.      *)
(*     TLC decides, from the keys alone, whether the call had to raise,    *)
(*     and checks the relations and defaults of the completed settings.    *)
(***************************************************************************)
EXTENDS ExtReal, TLC, Json, IOUtils, SequencesExt

Open01   == {"decrease_radius_factor", "decrease_resolution_factor", "low_ratio", "high_ratio",
             "very_low_ratio", "short_step_threshold", "low_radius_factor", "byrd_omojokun_factor"}
Above1   == {"increase_radius_factor", "increase_radius_threshold", "decrease_radius_threshold",
             "large_resolution_threshold", "moderate_resolution_threshold", "penalty_increase_factor",
             "threshold_ratio_constraints", "large_gradient_factor", "resolution_factor"}
AtLeast1 == {"penalty_increase_threshold"}
NonNeg   == {"large_shift_factor", "radius_final"}
Positive == {"radius_init", "maxfev", "maxiter", "history_size", "filter_size"}
AnyValue == {"feasibility_tol", "target", "disp", "scale", "store_history", "debug", "improve_tcg"}
Npt      == {"nb_points"}
AllNames == Open01 \cup Above1 \cup AtLeast1 \cup NonNeg \cup Positive \cup AnyValue \cup Npt

\* coupled pairs <<a, b, strict>> : a < b (strict) or a <= b must hold
Coupled == {<<"radius_final", "radius_init", FALSE>>,
            <<"decrease_radius_threshold", "increase_radius_factor", TRUE>>,
            <<"moderate_resolution_threshold", "large_resolution_threshold", FALSE>>,
            <<"low_ratio", "high_ratio", FALSE>>,
            <<"penalty_increase_threshold", "penalty_increase_factor", FALSE>>}
InCoupled == UNION {{c[1], c[2]} : c \in Coupled}

InDomain(r, name, v) ==
  CASE name \in Open01   -> Lt(r.k0, v) /\ Lt(v, r.k1)
    [] name \in Above1   -> Lt(r.k1, v)
    [] name \in AtLeast1 -> Le(r.k1, v)
    [] name \in NonNeg   -> Le(r.k0, v)
    [] name \in Positive -> Lt(r.k0, v)
    [] name \in Npt      -> Le(r.kn1, v) /\ Le(v, r.kmax)
    [] OTHER -> TRUE

Rel(a, b, strict) == IF strict THEN Lt(a, b) ELSE Le(a, b)

Sup(r) == DOMAIN r.sup

MustRaise(r) ==
  \/ \E name \in Sup(r) \cap AllNames : ~InDomain(r, name, r.sup[name])
  \/ \E c \in Coupled : c[1] \in Sup(r) /\ c[2] \in Sup(r) /\ ~Rel(r.sup[c[1]], r.sup[c[2]], c[3])

\* clauses that fail for an observed outcome r
Sel(c, name) == IF c THEN {} ELSE {name}

FailedOutcome(r) ==
  LET raise == MustRaise(r)
      done  == r.done
  IN Sel(raise <=> (r.raised = "ValueError"), IF raise THEN "C19.accepted" ELSE "C19.rejected")
  \cup Sel(r.raised \in {"none", "ValueError"}, "C19.exception")
  \cup (IF r.raised # "none" THEN {} ELSE
          Sel(\A name \in Sup(r) \cap AllNames : name \in DOMAIN done /\ done[name] = r.sup[name], "C19.kept")
     \cup Sel(\A name \in (AllNames \ InCoupled) \ Sup(r) : name \in DOMAIN done /\ done[name] = r.dflt[name],
              "C19.default")
     \cup Sel(\A name \in AllNames \cap DOMAIN done : InDomain(r, name, done[name]), "C19.domain")
     \cup Sel(\A c \in Coupled : Rel(done[c[1]], done[c[2]], c[3]), "C19.relation")
     \cup Sel(\A c \in Coupled :
               /\ (c[1] \notin Sup(r) /\ c[2] \notin Sup(r)) =>
                     (done[c[1]] = r.dflt[c[1]] /\ done[c[2]] = r.dflt[c[2]])
               \* a derived partner leaves its default only in the direction the relation asks for
               /\ (c[1] \notin Sup(r)) => Le(done[c[1]], r.dflt[c[1]])
               /\ (c[2] \notin Sup(r)) => Le(r.dflt[c[2]], done[c[2]]),
              "C19.derived")
     \cup Sel(r.unknown => (r.warned /\ r.sameseq), "C19.unknown")
     \cup Sel(~r.unknown => ~r.warned, "C19.spurious"))

(* --- validation of a file of observed outcomes --- *)
Outcomes == JsonDeserialize(IOEnv.OUTCOME_FILE)

VARIABLE i
OInit == i = 0
ONext == /\ i < Len(Outcomes)
         /\ i' = i + 1
         /\ LET f == FailedOutcome(Outcomes[i + 1])
            IN f # {} => PrintT(<<"OUTCOME", Outcomes[i + 1].id, f>>)
OSpec == OInit /\ [][ONext]_i

(* --- the universe of configurations --- *)
Positions == {"below", "atlo", "inlo", "typ", "inhi", "athi", "above"}
Singles == {<<[name |-> nm, pos |-> p]>> : nm \in AllNames, p \in Positions}
PairsOf(S) == {<<[name |-> a, pos |-> p], [name |-> b, pos |-> q]>> :
                 a \in S, b \in S, p \in Positions, q \in Positions}
CoupledPairs == UNION {{<<[name |-> c[1], pos |-> p], [name |-> c[2], pos |-> q]>> :
                          p \in Positions, q \in Positions} : c \in Coupled}
      \cup {<<[name |-> "nb_points", pos |-> p], [name |-> "maxfev", pos |-> q]>> :
              p \in Positions, q \in Positions}
Universe(id) ==
  CASE id = "singles" -> Singles
    [] id = "coupled" -> CoupledPairs
    [] id = "pairs" -> {s \in PairsOf(AllNames) : s[1].name # s[2].name}
EmitUniverse ==
  IF "UNIVERSE_OUT" \in DOMAIN IOEnv
  THEN /\ JsonSerialize(IOEnv.UNIVERSE_OUT, SetToSeq(Universe(IOEnv.UNIVERSE_ID)))
       /\ PrintT(<<"UNIVERSE", IOEnv.UNIVERSE_ID, Cardinality(Universe(IOEnv.UNIVERSE_ID))>>)
  ELSE TRUE
ASSUME EmitUniverse
=============================================================================
