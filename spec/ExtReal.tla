------------------------------ MODULE ExtReal ------------------------------
(***************************************************************************)
(* Values of the solver as TLC can handle them.                            *)
(*                                                                         *)
(* A value is an integer "key".  Two instantiations share these operators: *)
(*  - design checking: a tiny abstract domain of extended integers, where  *)
(*    NInf < small integers < PInf and NaN is a reserved key; arithmetic   *)
(*    (Add, Mul) follows the IEEE-754 rules for infinities and NaN;        *)
(*  - trace validation: per-trace ORDER KEYS.  The recorder ranks every    *)
(*    float that occurs in a trace (IEEE comparison, -0.0 = 0.0), so that  *)
(*    a <= b on floats  <=>  key(a) <= key(b); NaN gets the reserved key.  *)
(*    -inf and +inf, when they occur, are ranked like any other value and  *)
(*    their keys are announced in the trace header.                        *)
(* Every comparison with NaN is FALSE, as in IEEE arithmetic.              *)
(***************************************************************************)
EXTENDS Integers, Sequences, FiniteSets

NaN  == -1000000      \* reserved key
PInf ==  1000         \* abstract domain only
NInf == -1000         \* abstract domain only

IsNaN(a) == a = NaN
Lt(a, b) == a # NaN /\ b # NaN /\ a < b
Le(a, b) == a # NaN /\ b # NaN /\ a <= b
Eq(a, b) == a # NaN /\ b # NaN /\ a = b
Same(a, b) == a = b                 \* bitwise-style equality: NaN is Same as NaN

\* NaN-aware preference: "a is at least as good as b"; NaN is never preferred
\* to a defined value, and anything is at least as good as NaN.
BetterEq(a, b) == IsNaN(b) \/ (~IsNaN(a) /\ a <= b)
Better(a, b)   == (~IsNaN(a) /\ IsNaN(b)) \/ Lt(a, b)

Max2(a, b) == IF a >= b THEN a ELSE b
Min2(a, b) == IF a <= b THEN a ELSE b

(* ---- abstract extended-integer arithmetic (design checking only) ------ *)
IsInfA(a)    == a = PInf \/ a = NInf
IsFiniteA(a) == a # NaN /\ ~IsInfA(a)

AddA(a, b) ==
  IF a = NaN \/ b = NaN THEN NaN
  ELSE IF a = PInf THEN (IF b = NInf THEN NaN ELSE PInf)
  ELSE IF a = NInf THEN (IF b = PInf THEN NaN ELSE NInf)
  ELSE IF IsInfA(b) THEN b
  ELSE a + b

SignA(a) == IF a > 0 THEN 1 ELSE IF a < 0 THEN -1 ELSE 0

MulA(a, b) ==
  IF a = NaN \/ b = NaN THEN NaN
  ELSE IF IsInfA(a) \/ IsInfA(b)
       THEN (IF a = 0 \/ b = 0 THEN NaN
             ELSE IF SignA(a) * SignA(b) > 0 THEN PInf ELSE NInf)
  ELSE a * b

\* nanmin over a non-empty set of keys that contains at least one non-NaN
NanMin(S) == CHOOSE m \in S : m # NaN /\ \A x \in S : x # NaN => m <= x

\* barrier clipping as done before values enter the models
ClipA(v, barrier) == IF IsNaN(v) THEN barrier
                     ELSE Max2(Min2(v, barrier), -barrier)

SeqRange(s) == {s[i] : i \in DOMAIN s}
=============================================================================
