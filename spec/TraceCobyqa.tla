---------------------------- MODULE TraceCobyqa ----------------------------
(***************************************************************************)
(* Trace specification: consumes executions recorded from the real         *)
(* cobyqa.minimize (harness/recorder.py) and evaluates, after every event, *)
(* the clauses of CobyqaCore.tla.                                          *)
(*                                                                         *)
(* Monitor style (DESIGN 2.5): every event is consumed; failed clauses are *)
(* accumulated in viol together with the index of the event, so a verdict  *)
(* is total and names the clause.  A batch of traces is checked in one TLC *)
(* run: each trace is one initial state.  The final step of a trace prints *)
(* its verdict; the invariants Cxx below give the same verdict property by *)
(* property (with a TLC counterexample) when a single property is checked. *)
(***************************************************************************)
EXTENDS CobyqaCore, Json, IOUtils

Traces == JsonDeserialize(IOEnv.TRACE_FILE)

VARIABLES tid, l, st, viol
tvars == <<tid, l, st, viol>>

Hdr == Traces[tid].hdr
Evs == Traces[tid].ev

TInit == \E t \in 1..Len(Traces) :
            /\ tid = t /\ l = 1 /\ viol = {}
            /\ st = InitState(Traces[t].hdr)

Consume ==
  /\ l <= Len(Evs)
  /\ LET ev == Evs[l]
     IN /\ st' = Step(Hdr, st, ev)
        /\ viol' = viol \cup {<<c, l>> : c \in Failed(Hdr, st, ev)}
  /\ l' = l + 1
  /\ UNCHANGED tid

\* the end of a trace: every run must have ended with Res or Raise
Finish ==
  /\ l = Len(Evs) + 1
  /\ LET v == viol \cup (IF st.done THEN {} ELSE {<<"C08.noend", l>>})
     IN /\ PrintT(<<"TRACE", tid, Hdr.rid, st.nev, st.nit, Len(Evs), v>>)
        /\ viol' = v
  /\ l' = l + 1
  /\ UNCHANGED <<tid, st>>

TNext == Consume \/ Finish
TSpec == TInit /\ [][TNext]_tvars

Holds(pid) == \A v \in viol : Prefix(v[1], 3) # pid
C01 == Holds("C01")
C02 == Holds("C02")
C03 == Holds("C03")
C05 == Holds("C05")
C06 == Holds("C06")
C07 == Holds("C07")
C08 == Holds("C08")
C09 == Holds("C09")
C11 == Holds("C11")
C12 == Holds("C12")
C13 == Holds("C13")
C14 == Holds("C14")
C18 == Holds("C18")
C20 == Holds("C20")
=============================================================================
