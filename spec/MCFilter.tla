------------------------------ MODULE MCFilter ------------------------------
(* Model-checking wrapper for Filter.tla: constant definitions that a TLC   *)
(* configuration file cannot spell (negative literals, reserved keys).      *)
EXTENDS Filter
FDomFull  == {NaN, NInf, 0, 1, PInf}
CVDomFull == {NaN, 0, 1, 2, PInf}
FDomSmall  == {NaN, 0, 1}
CVDomSmall == {NaN, 0, 1, 2}
Pen012 == {0, 1, 2}
Tol01  == {0, 1}
=============================================================================
