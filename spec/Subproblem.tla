----------------------------- MODULE Subproblem -----------------------------
(***************************************************************************)
(* Properties C15 / C16: the five subproblem solvers                       *)
(*   tangential_byrd_omojokun, constrained_tangential_byrd_omojokun,       *)
(*   normal_byrd_omojokun, cauchy_geometry, spider_geometry.               *)
(*                                                                         *)
(* 1. The input space is written down as DEGENERACY CLASSES with small     *)
(*    integer instances (Universe): per coordinate a gradient sign and a   *)
(*    bound pattern (infinite / wide / active at the origin below, above,  *)
(*    both / narrow), a Hessian kind (zero, PD, ND, indefinite, singular,  *)
(*    dense), constraint rows (none, inactive, active, duplicated,         *)
(*    parallel, rank deficient; equality rows), the radius relative to the *)
(*    box, an overall power-of-two length scale, improve_tcg on / off.     *)
(* 2. For every instance TLC computes what is exactly computable on        *)
(*    integers: Improvable (a sign-pattern predicate: a feasible first     *)
(*    order improving direction exists) and, where the box fits inside the *)
(*    trust region, the projected-gradient Cauchy decrease as a rational.  *)
(* 3. The harness calls the real solvers, measures norms / model values /  *)
(*    residuals (recorder arithmetic) and hands them back as order keys;   *)
(*    TLC decides every clause (FailedCall).                               *)
(***************************************************************************)
EXTENDS Integers, Sequences, FiniteSets, TLC, Json, IOUtils, SequencesExt

NaN == -1000000
Lt(a, b) == a # NaN /\ b # NaN /\ a < b
Le(a, b) == a # NaN /\ b # NaN /\ a <= b

(* ------------------------------------------------------------- instances *)
\* lengths are in units of 1/8: bounds as <<lo, hi>> with Inf == 100000 meaning infinite
Inf == 100000
BoundOf(p) == CASE p = "inf"    -> <<-Inf, Inf>>
                [] p = "wide"   -> <<-64, 64>>
                [] p = "lo0"    -> <<0, 64>>
                [] p = "up0"    -> <<-64, 0>>
                [] p = "both0"  -> <<0, 0>>
                [] p = "narrow" -> <<-2, 2>>
                [] p = "lonear" -> <<-1, 64>>
                [] p = "box1"   -> <<-6, 8>>
                [] p = "half"   -> <<-4, Inf>>
                [] p = "up02"   -> <<-40, 2>>
BPats == {"inf", "wide", "lo0", "up0", "both0", "narrow", "lonear"}
GVals == {-2, 0, 1}

HessOf(kind, n) ==   \* integer symmetric matrices
  [a \in 1..n |-> [b \in 1..n |->
     CASE kind = "zero"  -> 0
       [] kind = "pd"    -> IF a = b THEN a + 1 ELSE 0
       [] kind = "nd"    -> IF a = b THEN -(a + 1) ELSE 0
       [] kind = "indef" -> IF a = b THEN (IF a % 2 = 1 THEN 2 ELSE -3) ELSE 0
       [] kind = "sing"  -> IF a = b /\ a = 1 THEN 2 ELSE 0
       [] kind = "dense" -> IF a = b THEN 3 ELSE 1
       [] kind = "dind"  -> IF a = b THEN 1 ELSE 2
       [] kind = "dmix"  -> IF a = b THEN (IF a = 1 THEN 0 ELSE IF a = n THEN -2 ELSE 1) ELSE 1
       [] kind = "nd1"   -> IF a = b THEN -1 ELSE 0 ]]
HKinds == {"zero", "pd", "nd", "indef", "sing", "dense", "dind", "dmix", "nd1"}

\* radius in units of 1/8: inside the narrowest box, comparable, containing every finite box
Deltas == {1, 16, 1024}          \* (some universes add 8 and 32)
Scales == {-20, 0, 20}           \* power-of-two exponent applied to all lengths

RECURSIVE SumTo(_, _)
SumTo(f, m) == IF m = 0 THEN 0 ELSE f[m] + SumTo(f, m - 1)
Dot(a, b) == SumTo([i \in 1..Len(a) |-> a[i] * b[i]], Len(a))
Abs(a) == IF a >= 0 THEN a ELSE -a
RECURSIVE GCD(_, _)
GCD(a, b) == IF b = 0 THEN Abs(a) ELSE GCD(b, a % b)
Rat(p, q) == LET s == IF q < 0 THEN -1 ELSE 1
                 g == GCD(Abs(p), Abs(q))
             IN IF p = 0 THEN <<0, 1>> ELSE <<(s * p) \div g, (s * q) \div g>>
RLe(a, b) == a[1] * b[2] <= b[1] * a[2]
RMin(a, b) == IF RLe(a, b) THEN a ELSE b

\* a feasible first-order improving direction exists for max |c + g.s + ...| with c = 0:
\* some coordinate can move in a direction that changes g.s
Improvable(g, bd) == \E i \in 1..Len(g) : g[i] # 0 /\ (bd[i][1] < 0 \/ bd[i][2] > 0)
\* ... and for min g.s : a descent direction that the bounds allow
Descent(g, bd) == \E i \in 1..Len(g) : (g[i] < 0 /\ bd[i][2] > 0) \/ (g[i] > 0 /\ bd[i][1] < 0)

\* projected-gradient Cauchy decrease (first segment): d = -g on the coordinates that are not
\* blocked by a bound active at the origin; t* = min(first bound hit, unconstrained minimiser
\* along d).  Defined (rational) when the trust region cannot bind: every moving coordinate has a
\* finite bound in its direction and the box diagonal is inside the radius.
FreeDir(g, bd) == [i \in 1..Len(g) |->
                     IF (g[i] < 0 /\ bd[i][2] > 0) \/ (g[i] > 0 /\ bd[i][1] < 0) THEN -g[i] ELSE 0]
BoxInside(g, bd, delta) ==
  LET d == FreeDir(g, bd)
      reach == [i \in 1..Len(g) |-> IF d[i] > 0 THEN bd[i][2] ELSE IF d[i] < 0 THEN -bd[i][1] ELSE 0]
  IN /\ \A i \in 1..Len(g) : reach[i] < Inf
     /\ Dot(reach, reach) <= delta * delta
\* value returned: <<num, den>> of the decrease  -(q(t* d)) >= 0 in units where lengths are 1/8
CauchyDecrease(g, H, bd) ==
  LET n == Len(g)
      d == FreeDir(g, bd)
      gd == -Dot(g, d)                        \* = |g_free|^2 >= 0
      Hd == [a \in 1..n |-> SumTo([b \in 1..n |-> H[a][b] * d[b]], n)]
      kap == Dot(d, Hd)
      \* lengths in 1/8 units: t such that t * d[i] <= bound/8  ->  t <= bound / (8 d[i])
      tb == LET S == {i \in 1..n : d[i] # 0}
                T == {IF d[i] > 0 THEN Rat(bd[i][2], 8 * d[i]) ELSE Rat(-bd[i][1], -8 * d[i]) : i \in S}
            IN CHOOSE t \in T : \A u \in T : RLe(t, u)
      tq == IF kap > 0 THEN Rat(gd, kap) ELSE tb
      t  == RMin(tb, tq)
      \* decrease = t gd - 1/2 t^2 kap
  IN IF gd = 0 THEN <<0, 1>>
     ELSE Rat(2 * t[1] * t[2] * gd - t[1] * t[1] * kap, 2 * t[2] * t[2])

Inst(n, g, bp, hk, delta, sc, tcg, rows, eqs) ==
  LET bd == [i \in 1..n |-> BoundOf(bp[i])]
      H  == HessOf(hk, n)
  IN [n |-> n, g |-> g, bp |-> bp, bd |-> bd, hk |-> hk, H |-> H, delta |-> delta, sc |-> sc,
      tcg |-> tcg, rows |-> rows, eqs |-> eqs,
      improvable |-> Improvable(g, bd), descent |-> Descent(g, bd),
      boxinside |-> BoxInside(g, bd, delta),
      cauchy |-> IF BoxInside(g, bd, delta) /\ rows = "none" /\ eqs = "none"
                 THEN CauchyDecrease(g, H, bd) ELSE <<-1, 1>>]

\* instances of the normal subproblem with explicit integer rows (right-hand sides in halves)
InstN(n, bp, delta, sc, tcg, aub, bub2, aeq, beq2) ==
  [Inst(n, [i \in 1..n |-> 0], bp, "zero", delta, sc, tcg, "explicit", "explicit")
     EXCEPT !.rows = "explicit", !.eqs = "explicit"] @@
  [xaub |-> aub, xbub2 |-> bub2, xaeq |-> aeq, xbeq2 |-> beq2]

\* ---- randomly drawn integer instances (TLC's RandomElement, reproducible with -seed): the
\* degeneracy classes above are exhaustive but coarse; these fill the space between them.
\* Data in quarters: g4, H4 (symmetric), bounds bd4, radius delta4, constant c4.
\* A rational LOWER bound of the Cauchy decrease when the trust region may bind (data in quarters, result in
\* real units).  Along d = FreeDir the model decreases by phi(t) = t gd - t^2 kap / 2, increasing up to its
\* minimiser; the Cauchy step length is min(first bound hit, delta / |d|, minimiser).  delta / |d| is irrational
\* in general: it is replaced by the smaller delta / CeilSqrt(|d|^2), so the value below never exceeds the
\* true Cauchy decrease and "decrease >= CauchyLowerTR" is implied by the property (equal when |d|^2 is a square).
CeilSqrt(m) == CHOOSE k \in 0..(m + 1) : k * k >= m /\ (k = 0 \/ (k - 1) * (k - 1) < m)
CauchyLowerTR(g4, H4, bd4, delta4) ==
  LET n == Len(g4)
      d == FreeDir(g4, bd4)                   \* 4 x the real direction
      gd4 == -Dot(g4, d)                      \* 16 x |g_free|^2
      Hd == [a \in 1..n |-> SumTo([b \in 1..n |-> H4[a][b] * d[b]], n)]
      kap4 == Dot(d, Hd)                      \* 64 x the real curvature along d
      S == {i \in 1..n : (d[i] > 0 /\ bd4[i][2] < Inf) \/ (d[i] < 0 /\ bd4[i][1] > -Inf)}
      T == {IF d[i] > 0 THEN Rat(bd4[i][2], d[i]) ELSE Rat(-bd4[i][1], -d[i]) : i \in S}
           \cup {Rat(delta4, CeilSqrt(gd4))}
           \cup (IF kap4 > 0 THEN {Rat(4 * gd4, kap4)} ELSE {})
      t == CHOOSE a \in T : \A u \in T : RLe(a, u)
      \* phi(t) = t gd4 / 16 - t^2 kap4 / 128  with t = p / q
  IN IF gd4 = 0 THEN <<0, 1>>
     ELSE Rat(8 * t[1] * t[2] * gd4 - t[1] * t[1] * kap4, 128 * t[2] * t[2])

InstXc(n, g4, H4, bd4, delta4, c4, tcg, cau) ==
  [n |-> n, g |-> g4, bp |-> [i \in 1..n |-> "explicit"], bd |-> bd4, hk |-> "explicit", H |-> H4,
   delta |-> delta4, sc |-> 0, tcg |-> tcg, rows |-> "none", eqs |-> "none", unit |-> 4, c4 |-> c4,
   improvable |-> Improvable(g4, bd4), descent |-> Descent(g4, bd4), boxinside |-> FALSE,
   cauchy |-> cau]
InstX(n, g4, H4, bd4, delta4, c4, tcg) ==
  InstXc(n, g4, H4, bd4, delta4, c4, tcg, CauchyLowerTR(g4, H4, bd4, delta4))
\* a deterministic scrambler instead of RandomElement: TLC re-evaluates a LET-bound random value
\* at every reference, which would e.g. make a "symmetric" matrix asymmetric
Rnd(i, k, m) == ((((i * 7919 + k * 10473 + 12345) % 10007) * (((i + 31 * k) % 97) + 1)) % 10007) % m
Pick(seq, i, k) == seq[Rnd(i, k, Len(seq)) + 1]
RSym(i, n, seq, k0) == [a \in 1..n |-> [b \in 1..n |->
                          Pick(seq, i, k0 + (IF a <= b THEN 10 * a + b ELSE 10 * b + a))]]
Lows4  == <<-Inf, -80, -20, -8, -2, -1, 0>>
Highs4 == <<0, 1, 2, 3, 8, 20, 80, Inf>>
RandT(i) == LET n == Pick(<<2, 3, 3, 4>>, i, 1)
            IN InstX(n, [j \in 1..n |-> Pick(<<-4, -3, -2, -1, 0, 1, 2, 3, 4>>, i, 10 + j)],
                     RSym(i, n, <<-6, -4, -3, -2, -1, 0, 0, 1, 2, 3, 4, 6>>, 100),
                     [j \in 1..n |-> <<Pick(Lows4, i, 20 + j), Pick(Highs4, i, 30 + j)>>],
                     Pick(<<2, 4, 6, 8, 11, 14, 16, 24>>, i, 2), 0, TRUE)
\* tight boxes partly inside the trust region, strongly coupled Hessians without zero entries: the
\* truncated CG hits a bound at a nonzero value, goes on in the other variables and ends on the boundary
RandC(i) == LET n == Pick(<<3, 3, 4, 3>>, i, 1)
            IN InstX(n, [j \in 1..n |-> Pick(<<-5, -4, -3, -2, -1, 1, 2, 3, 4, 5>>, i, 10 + j)],
                     RSym(i, n, <<-6, -5, -4, -3, -2, 2, 3, 4, 5, 6>>, 100),
                     [j \in 1..n |-> <<Pick(<<-4, -3, -2, -1, 0, -1, -2>>, i, 20 + j),
                                        Pick(<<1, 2, 3, 4, 1, 2, 0, 3>>, i, 30 + j)>>],
                     Pick(<<3, 4, 5, 6, 7>>, i, 2), 0, TRUE)
RandG(i) == LET n == Pick(<<1, 1, 2, 2>>, i, 1)
            IN InstXc(n, [j \in 1..n |-> Pick(<<-24, -8, -2, -1, 0, 0, 1, 2, 8, 24>>, i, 10 + j)],
                     RSym(i, n, <<-8, -4, -1, 0, 0, 1, 4, 16, 48>>, 100),
                     [j \in 1..n |-> <<Pick(<<-Inf, -40, -6, -4, 0, 0>>, i, 20 + j), Pick(<<0, 4, 6, 20, 40, Inf>>, i, 30 + j)>>],
                     Pick(<<1, 2, 3, 4, 5, 6, 7, 9, 12>>, i, 2), Pick(<<-8, -4, -1, 1, 4, 8>>, i, 3), TRUE,
                     <<-1, 1>>)    \* geometry instances: no Cauchy oracle (the tangential solver is not called)
RandN(i) == LET n == 2
                m == Pick(<<1, 2, 2>>, i, 1)
                R7 == <<-7, -5, -4, -3, -2, -1, 0, 1, 2, 3, 4, 5, 7>>
            IN InstN(n, [j \in 1..n |-> Pick(<<"inf", "inf", "wide", "up0", "lo0", "box1", "up02", "lonear">>, i, 10 + j)],
                     Pick(<<4, 8, 16, 64>>, i, 2), 0,
                     Pick(<<TRUE, FALSE>>, i, 3),
                     [r \in 1..m |-> [j \in 1..n |-> Pick(R7, i, 40 + 10 * r + j)]],
                     [r \in 1..m |-> Pick(<<-9, -5, -3, -1, 1, 4>>, i, 70 + r)],
                     << [j \in 1..n |-> Pick(R7, i, 80 + j)] >>, << Pick(<<-5, -2, 1, 3>>, i, 90) >>)

Vecs(n, S) == [1..n -> S]
RowKinds == {"none", "inactive", "active", "dup", "parallel", "rankdef", "violated", "poly", "wedge", "tie"}
EqKinds  == {"none", "one", "dup"}

Universe(id) ==
  CASE id = "bd1" -> {Inst(1, g, bp, hk, d, sc, tcg, "none", "none") :
                        g \in Vecs(1, GVals), bp \in Vecs(1, BPats), hk \in HKinds, d \in Deltas,
                        sc \in Scales, tcg \in BOOLEAN}
    [] id = "bd2" -> {Inst(2, g, bp, hk, d, sc, tcg, "none", "none") :
                        g \in Vecs(2, GVals), bp \in Vecs(2, BPats), hk \in HKinds, d \in Deltas,
                        sc \in {0}, tcg \in BOOLEAN}
    [] id = "bd2s" -> {Inst(2, g, bp, hk, d, sc, TRUE, "none", "none") :
                        g \in Vecs(2, GVals), bp \in Vecs(2, BPats \ {"lonear"}), hk \in {"pd", "indef", "dense"},
                        d \in Deltas, sc \in {-20, 20}}
    [] id = "bd3" -> {Inst(3, g, bp, hk, d, 0, tcg, "none", "none") :
                        g \in Vecs(3, GVals), bp \in Vecs(3, {"inf", "wide", "lo0", "narrow", "both0"}),
                        hk \in {"pd", "indef", "dind", "zero"}, d \in {16, 1024}, tcg \in BOOLEAN}
    [] id = "lin2" -> {Inst(2, g, bp, hk, d, sc, tcg, rows, eqs) :
                        g \in Vecs(2, GVals), bp \in Vecs(2, {"inf", "wide", "lo0", "narrow"}),
                        hk \in {"zero", "pd", "indef", "dense"}, d \in Deltas, sc \in {0, 20},
                        tcg \in BOOLEAN, rows \in RowKinds, eqs \in {"none", "one"}}
    [] id = "lin3" -> {Inst(3, g, bp, hk, d, 0, tcg, rows, eqs) :
                        g \in Vecs(3, {-2, 1}) \cup {<<0, 0, 0>>, <<0, 1, 0>>},
                        bp \in Vecs(3, {"inf", "lo0", "narrow"}),
                        hk \in {"pd", "indef", "dind"}, d \in {16, 1024},
                        tcg \in BOOLEAN, rows \in RowKinds, eqs \in EqKinds}

UniverseP(id) ==
  CASE id = "lin3p" -> {Inst(3, g, bp, hk, d, 0, TRUE, rows, "none") :
                        g \in Vecs(3, {-2, -1, 1}), bp \in Vecs(3, {"box1", "half", "wide", "inf"}),
                        hk \in {"indef", "dind", "pd", "sing"}, d \in {8, 16}, rows \in {"poly", "wedge"}}
    [] id = "lin2t" -> {Inst(2, g, bp, hk, d, sc, TRUE, "tie", "none") :
                        g \in {<<-1, 0>>, <<-2, 0>>, <<0, -1>>, <<-1, -1>>, <<1, -2>>}, bp \in Vecs(2, {"inf", "wide"}),
                        hk \in HKinds, d \in {8, 16, 1024}, sc \in {0, 20}}
    [] id = "lin2p" -> {Inst(2, g, bp, hk, d, sc, TRUE, rows, "none") :
                        g \in Vecs(2, {-2, -1, 1}), bp \in Vecs(2, {"box1", "half", "wide", "inf", "lonear"}),
                        hk \in HKinds, d \in {8, 16}, sc \in {0, 20}, rows \in {"poly", "wedge"}}
    [] id = "rndt" -> {RandT(i) : i \in 1..24000}
    [] id = "rndc" -> {RandC(i) : i \in 1..40000}
    [] id = "rndg" -> {RandG(i) : i \in 1..16000}
    [] id = "rndn" -> {RandN(i) : i \in 1..40000}
    [] id = "nrm2" -> {InstN(2, bp, d, 0, tcg, <<r1, r2>>, <<b1, b2>>, <<e>>, <<be>>) :
                        bp \in {<<"inf", "inf">>, <<"wide", "wide">>, <<"lo0", "inf">>},
                        d \in {8, 1024}, tcg \in BOOLEAN,
                        r1 \in {<<3, -1>>, <<1, 2>>, <<-2, 1>>}, r2 \in {<<-1, 1>>, <<2, 3>>, <<1, -3>>},
                        b1 \in {-1, -5, 2}, b2 \in {-5, -2, 3},
                        e \in {<<-5, 1>>, <<1, 1>>, <<2, -3>>}, be \in {-2, 1, 4}}
    [] id = "bd3r" -> {Inst(3, g, bp, hk, d, 0, TRUE, "none", "none") :
                        g \in Vecs(3, {-2, -1, 1}), bp \in Vecs(3, {"box1", "half", "lonear", "wide", "narrow", "lo0", "up02"}),
                        hk \in {"dind", "dmix", "indef", "dense", "nd"}, d \in {16, 28, 32}}
    [] id = "geo" -> UNION {{Inst(n, g, bp, hk, d, 0, TRUE, "none", "none") :
                        g \in Vecs(n, {-2, -1, 0, 1}), bp \in Vecs(n, {"inf", "wide", "box1"}),
                        hk \in {"nd1", "nd", "indef", "pd", "zero", "dmix"}, d \in {8, 12, 16, 24, 32, 40}} : n \in {1, 2}}
    [] OTHER -> Universe(id)

Emit == IF "UNIVERSE_OUT" \in DOMAIN IOEnv
        THEN /\ JsonSerialize(IOEnv.UNIVERSE_OUT, SetToSeq(UniverseP(IOEnv.UNIVERSE_ID)))
             /\ PrintT(<<"UNIVERSE", IOEnv.UNIVERSE_ID, Cardinality(UniverseP(IOEnv.UNIVERSE_ID))>>)
        ELSE TRUE
ASSUME Emit

(* ------------------------------------------------- validation of outcomes *)
\* one record per solver call (keys from the harness):
\*  fn, s / xl / xu (seq), norm, deltaHi (delta * (1 + c eps)), q0Lo/q0Hi and qs (objective or
\*  violation or |q| at 0 and at s, with band), ineqOK, eqOK (seq of booleans from banded residuals
\*  are replaced by keys: resid[i], residHi[i]), improvable, cauchyLo (key of the required
\*  decrease, NaN = not applicable), dec (key of the achieved decrease)
Sel(c, name) == IF c THEN {} ELSE {name}

FailedCall(r) ==
     Sel(r.exc = "none", "C15.raise." \o r.fn)
\cup (IF r.exc # "none" THEN {} ELSE
     Sel(\A i \in DOMAIN r.s : Le(r.xl[i], r.s[i]) /\ Le(r.s[i], r.xu[i]), "C15.bounds." \o r.fn)
\cup Sel(Le(r.norm, r.deltaHi), "C15.radius." \o r.fn)
\cup Sel(\A i \in DOMAIN r.ineq : Le(r.ineq[i], r.ineqHi[i]), "C15.ineq." \o r.fn)
\cup Sel(\A i \in DOMAIN r.eq : Le(r.eq[i], r.eqHi[i]), "C15.eq." \o r.fn)
\cup (IF r.kind = "min" THEN Sel(Le(r.qs, r.q0Hi), "C16.worse." \o r.fn)
      ELSE Sel(Le(r.q0Lo, r.qs), "C16.worse." \o r.fn))
\cup Sel(r.cauchyLo = NaN \/ Le(r.cauchyLo, r.dec), "C16.cauchy." \o r.fn)
\cup Sel((r.fn = "cauchy_geometry" /\ r.improvable) => Lt(r.q0Hi, r.qs), "C16.improve." \o r.fn))

Outcomes == JsonDeserialize(IOEnv.OUTCOME_FILE)
VARIABLE i
OInit == i = 0
ONext == /\ i < Len(Outcomes)
         /\ i' = i + 1
         /\ LET f == FailedCall(Outcomes[i + 1])
            IN f # {} => PrintT(<<"OUTCOME", Outcomes[i + 1].id, f>>)
OSpec == OInit /\ [][ONext]_i
=============================================================================
