---------------------------- MODULE Constraints ----------------------------
(***************************************************************************)
(* Property C17: the translation of two-sided user constraints             *)
(* lb <= c(x) <= ub into the solver's internal form  c_ub <= 0, c_eq = 0.  *)
(* Transcribed from the documentation: per component                       *)
(*   lb = -inf or ub = +inf   one inequality (none if both)                *)
(*   two finite limits        two inequalities                            *)
(*   lb = ub                  one equality at that level                   *)
(*   NaN limit                no limit on that side                        *)
(* so that the largest internal violation equals the largest amount by     *)
(* which the values leave [lb, ub].                                        *)
(*                                                                         *)
(* Limits range over {-inf, 1, 3, +inf, NaN}, values over {0,1,2,3,4}      *)
(* (below / at / between / at / above the finite limits).  TLC checks the  *)
(* theorem on the whole lattice and writes, for every constraint list of   *)
(* the universe, the expected numbers of internal inequalities and         *)
(* equalities and the expected violation; harness/c17.py replays each into *)
(* LinearConstraints, NonlinearConstraints, Problem and minimize.          *)
(***************************************************************************)
EXTENDS ExtReal, TLC, Json, IOUtils, SequencesExt

Lows  == {NInf, 1, 3, NaN}
Highs == {1, 3, PInf, NaN}
Pats  == {<<l, u>> : l \in Lows, u \in Highs} \ {<<3, 1>>}
Vals  == {0, 1, 2, 3, 4}

Lo(p) == IF p[1] = NaN THEN NInf ELSE p[1]          \* NaN limit = no limit
Hi(p) == IF p[2] = NaN THEN PInf ELSE p[2]
IsEq(p)  == Lo(p) = Hi(p)
NIneq(p) == IF IsEq(p) THEN 0 ELSE (IF Lo(p) # NInf THEN 1 ELSE 0) + (IF Hi(p) # PInf THEN 1 ELSE 0)
NEq(p)   == IF IsEq(p) THEN 1 ELSE 0

Pos(a) == IF a > 0 THEN a ELSE 0
Abs(a) == IF a >= 0 THEN a ELSE -a

\* the amount by which v leaves [lb, ub]
IntervalViol(p, v) ==
  Max2(IF Lo(p) = NInf THEN 0 ELSE Pos(Lo(p) - v), IF Hi(p) = PInf THEN 0 ELSE Pos(v - Hi(p)))

\* the internal form: residuals of the rows this component contributes
InternalRows(p, v) ==
  IF IsEq(p) THEN {Abs(v - Lo(p))}
  ELSE (IF Lo(p) # NInf THEN {Pos(Lo(p) - v)} ELSE {}) \cup (IF Hi(p) # PInf THEN {Pos(v - Hi(p))} ELSE {})
InternalViol(p, v) == IF InternalRows(p, v) = {} THEN 0
                      ELSE CHOOSE m \in InternalRows(p, v) : \A r \in InternalRows(p, v) : r <= m

\* theorem checked by TLC on the whole lattice
Faithful == \A p \in Pats, v \in Vals :
              /\ InternalViol(p, v) = IntervalViol(p, v)
              /\ Cardinality(InternalRows(p, v)) <= NIneq(p) + NEq(p)
ASSUME Faithful

(* a constraint object: kind, components <<pattern, value>> *)
Comp == {<<p, v>> : p \in Pats, v \in Vals}
SumSeq(s, f(_)) == LET RECURSIVE S(_)
                       S(i) == IF i = 0 THEN 0 ELSE S(i - 1) + f(s[i])
                   IN S(Len(s))
MaxSeq(s, f(_)) == LET RECURSIVE M(_)
                       M(i) == IF i = 0 THEN 0 ELSE Max2(M(i - 1), f(s[i]))
                   IN M(Len(s))

Obj(kind, comps) == [kind |-> kind, comps |-> comps,
                     nineq |-> SumSeq(comps, LAMBDA c : NIneq(c[1])),
                     neq   |-> SumSeq(comps, LAMBDA c : NEq(c[1])),
                     viol  |-> MaxSeq(comps, LAMBDA c : IntervalViol(c[1], c[2]))]

Kinds == {"lin", "nl"}
\* a case: list of objects + expected totals per kind
Case(objs) ==
  [objs |-> objs,
   lin_ub |-> SumSeq(objs, LAMBDA o : IF o.kind = "lin" THEN o.nineq ELSE 0),
   lin_eq |-> SumSeq(objs, LAMBDA o : IF o.kind = "lin" THEN o.neq ELSE 0),
   nl_ub  |-> SumSeq(objs, LAMBDA o : IF o.kind = "nl" THEN o.nineq ELSE 0),
   nl_eq  |-> SumSeq(objs, LAMBDA o : IF o.kind = "nl" THEN o.neq ELSE 0),
   lin_viol |-> MaxSeq(objs, LAMBDA o : IF o.kind = "lin" THEN o.viol ELSE 0),
   nl_viol  |-> MaxSeq(objs, LAMBDA o : IF o.kind = "nl" THEN o.viol ELSE 0),
   viol   |-> MaxSeq(objs, LAMBDA o : o.viol)]

\* reduced value sets keep the cross products enumerable
V3 == {0, 2, 4}
Comp3 == {<<p, v>> : p \in Pats, v \in V3}
CompAt == {<<p, v>> : p \in Pats, v \in {1, 3}}

Universe(id) ==
  CASE id = "one1" -> {Case(<<Obj(k, <<c>>)>>) : k \in Kinds, c \in Comp}
    [] id = "one2" -> {Case(<<Obj(k, <<c1, c2>>)>>) : k \in Kinds, c1 \in Comp3 \cup CompAt, c2 \in Comp3}
    [] id = "two"  -> {Case(<<Obj(k1, <<c1>>), Obj(k2, <<c2>>)>>) :
                         k1 \in Kinds, k2 \in Kinds, c1 \in Comp3, c2 \in Comp3}
    [] id = "three" -> {Case(<<Obj(k, <<c1>>), Obj(k, <<c2>>), Obj(k2, <<c3>>)>>) :
                         k \in Kinds, k2 \in Kinds,
                         c1 \in {c \in Comp3 : c[2] = 2}, c2 \in {c \in Comp3 : c[2] = 4},
                         c3 \in {c \in Comp3 : c[2] = 0}}
    [] id = "wide" -> {Case(<<Obj(k, <<c1, c2, c3>>)>>) :
                         k \in Kinds, c1 \in {c \in Comp3 : c[2] = 4}, c2 \in {c \in Comp3 : c[2] = 0},
                         c3 \in {c \in Comp3 : c[2] = 2}}

Emit == IF "UNIVERSE_OUT" \in DOMAIN IOEnv
        THEN /\ JsonSerialize(IOEnv.UNIVERSE_OUT, SetToSeq(Universe(IOEnv.UNIVERSE_ID)))
             /\ PrintT(<<"UNIVERSE", IOEnv.UNIVERSE_ID, Cardinality(Universe(IOEnv.UNIVERSE_ID))>>)
        ELSE TRUE
ASSUME Emit
VARIABLE dummy
CInit == dummy = 0
CNext == UNCHANGED dummy
=============================================================================
