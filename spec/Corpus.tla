------------------------------- MODULE Corpus -------------------------------
(***************************************************************************)
(* The quantifiers of the properties, written down: for each property a    *)
(* finite, deterministic universe of abstract problem / configuration      *)
(* descriptors.  TLC enumerates a universe and writes it as JSON           *)
(* (ASSUME at the end); harness/corpus.py turns a descriptor into a        *)
(* concrete call of minimize, deterministically.  VERIF_SEED only selects  *)
(* which part of a universe the quick tier visits; the thorough tier       *)
(* visits all of it.                                                       *)
(*                                                                         *)
(* A descriptor is a record                                                *)
(*  n     dimension                    bp    per-variable bound pattern    *)
(*  x0    position of the start        sc    scale option                  *)
(*  obj   objective kind               flt   fault plan <<kind, where, k>> *)
(*  lin   linear constraints kind      nl    nonlinear constraints kind    *)
(*  bf    bounds form                  opt   option profile                *)
(*  cb    callback kind <<kind, k>>                                        *)
(***************************************************************************)
EXTENDS Integers, Sequences, FiniteSets, TLC, Json, IOUtils, SequencesExt

BP  == {"free", "lower", "upper", "wide", "narrow", "fixed", "ugly"}
X0  == {"inside", "onlower", "onupper", "below", "above"}
OBJ == {"quad", "nonsmooth", "noisy", "rosen"}
LIN == {"none", "ub", "two", "eq"}
NL  == {"none", "nlc_ub", "nlc_two", "nlc_eq", "dict_ineq", "dict_eq", "vector", "two_objs"}
OPT == {"default", "fev1", "fev_nptm1", "fev_npt", "fev_nptp1", "fev_nptp2", "fev_3npt",
        "iter1", "iter2", "iter5", "target", "npt_min", "npt_max", "hist1", "hist2",
        "filter1", "filter2"}
NoFault == <<"none", "obj", 0>>
NoCb == <<"none", 0>>

D(n, bp, x0, sc, obj, flt, lin, nl, bf, opt, cb) ==
  [n |-> n, bp |-> bp, x0 |-> x0, sc |-> sc, obj |-> obj, flt |-> flt, lin |-> lin,
   nl |-> nl, bf |-> bf, opt |-> opt, cb |-> cb]

Pats(n, S) == [1..n -> S]          \* every assignment of patterns to n variables

\* bound patterns with at least one free (non-fixed) variable
LivePats(n, S) == {p \in Pats(n, S) : \E i \in 1..n : p[i] # "fixed"}

Const(n, v) == [i \in 1..n |-> v]

(* ---- problems on which second-order-correction steps are frequent ------ *)
SocRich(opts, cbs) ==
  {D(n, bp, x0, sc, obj, NoFault, "none", nl, "Bounds", opt, cb) :
     n \in {2, 3}, bp \in UNION {{Const(m, "free"), Const(m, "wide"), Const(m, "upper"),
                               [i \in 1..m |-> IF i = 1 THEN "lower" ELSE "wide"]} : m \in {2, 3}},
     x0 \in {"far", "inside", "onupper"}, sc \in BOOLEAN, obj \in {"sum", "cubic"},
     nl \in {"sin_eq", "circle_eq", "circle_ge"}, opt \in opts, cb \in cbs}

(* ---- C01: bounds; every bound pattern x start position x scale x kind -- *)
Universe_C01 ==
  {D(n, bp, x0, sc, obj, NoFault, lin, nl, "Bounds", "default", cb) :
     n \in 1..2, bp \in UNION {LivePats(m, BP) : m \in 1..2}, x0 \in X0, sc \in BOOLEAN,
     obj \in {"quad", "nonsmooth"}, lin \in {"none", "ub"}, nl \in {"none", "nlc_ub", "nlc_eq"},
     cb \in {NoCb, <<"kw", 0>>}}
  \cup
  {D(3, bp, x0, sc, obj, flt, "two", nl, "array", "default", NoCb) :
     bp \in {<<"wide", "narrow", "fixed">>, <<"lower", "upper", "wide">>, <<"narrow", "narrow", "narrow">>,
             <<"wide", "wide", "wide">>, <<"free", "wide", "lower">>},
     x0 \in X0, sc \in BOOLEAN, obj \in {"rosen", "noisy"},
     flt \in {NoFault, <<"nan", "region", 0>>, <<"pinf", "region", 0>>},
     nl \in {"nlc_two", "vector", "nlc_eq"}}

  \cup  \* more interpolation points than 2n+1, starts pressed against different faces
  {D(n, bp, x0, sc, "quad", NoFault, "none", nl, "Bounds", opt, NoCb) :
     n \in {2, 3}, bp \in UNION {{Const(m, "wide"), Const(m, "ugly"), Const(m, "upper"),
                               [i \in 1..m |-> IF i = 1 THEN "upper" ELSE "wide"]} : m \in {2, 3}},
     x0 \in X0 \cup {"mixed", "mixed2"}, sc \in BOOLEAN, nl \in {"none", "nlc_ub"},
     opt \in {"npt_max", "npt_2np2", "default"}}

  \cup SocRich({"default"}, {NoCb})

WellFormed(d) == Len(d.bp) = d.n

(* ---- C02: the property's own cross product ----------------------------- *)
FixSets(n) == \* none / some / all-but-one variables fixed
  {Const(n, "wide"),
   [i \in 1..n |-> IF i = 1 /\ n > 1 THEN "fixed" ELSE "wide"],
   [i \in 1..n |-> IF i < n THEN "fixed" ELSE "wide"]}

Universe_C02 ==
  {D(n, bp, "inside", sc, obj, flt, lin, nl, bf, opt, NoCb) :
     n \in {2, 3}, bp \in UNION {FixSets(m) : m \in {2, 3}}, sc \in BOOLEAN,
     obj \in {"quad"}, flt \in {NoFault},
     lin \in {"none", "ub", "two", "eq"},
     nl \in {"none", "nlc_ub", "nlc_two", "nlc_eq", "dict_ineq", "dict_eq", "two_dicts"},
     bf \in {"Bounds", "array"}, opt \in {"default", "fev_nptp2", "iter2", "target"}}
  \cup
  {D(2, <<"wide", "wide">>, "inside", sc, "quad", flt, lin, nl, "Bounds", opt, cb) :
     sc \in BOOLEAN,
     flt \in {<<"nan", "obj", 3>>, <<"pinf", "obj", 4>>, <<"ninf", "obj", 6>>, <<"nan", "con", 2>>,
              <<"pinf", "con", 5>>, <<"nan", "region", 0>>, <<"huge", "obj", 4>>},
     lin \in {"none", "two"}, nl \in {"none", "nlc_two", "dict_ineq", "vector"},
     opt \in {"default", "fev_3npt"}, cb \in {NoCb, <<"stop", 4>>}}
  \cup  \* an objective that modifies the array it receives (each user function must get its own copy)
  {D(n, bp, "inside", sc, "inplace", NoFault, lin, nl, "Bounds", opt, NoCb) :
     n \in {2, 3}, bp \in UNION {FixSets(m) : m \in {2, 3}}, sc \in BOOLEAN, lin \in {"none", "mixed"},
     nl \in {"nlc_ub", "nlc_two", "dict_ineq", "vector"}, opt \in {"default", "fev_3npt"}}
  \cup  \* inconsistent bounds: the returned point violates them; maxcv is the largest violated amount
  {D(n, bp, x0, sc, obj, NoFault, lin, nl, bf, "default", NoCb) :
     n \in {1, 2}, bp \in UNION {{[i \in 1..m |-> IF i = 1 THEN "bad" ELSE "wide"]} : m \in {1, 2}},
     x0 \in {"inside", "below", "above"}, sc \in BOOLEAN, obj \in {"quad", "none"}, lin \in {"none", "ub"},
     nl \in {"none", "nlc_ub"}, bf \in {"Bounds", "array"}}
  \cup  \* every variable fixed: the single evaluation made while assembling the result
  {D(n, Const(n, "fixed"), "inside", sc, obj, NoFault, lin, nl, bf, "default", NoCb) :
     n \in {1, 2, 3}, sc \in BOOLEAN, obj \in {"quad", "none"}, lin \in {"none", "ub", "two", "eq"},
     nl \in {"none", "nlc_ub", "dict_eq"}, bf \in {"Bounds", "array"}}

(* ---- C05: budgets ------------------------------------------------------ *)
Universe_C05 ==
  {D(n, Const(n, bpk), "inside", FALSE, obj, NoFault, lin, nl, "Bounds", opt, NoCb) :
     n \in 1..3, bpk \in {"free", "wide"}, obj \in {"quad", "none"},
     lin \in {"none", "ub"}, nl \in {"none", "nlc_ub", "dict_eq"},
     opt \in {"fev1", "fev_nptm1", "fev_npt", "fev_nptp1", "fev_nptp2", "fev_3npt",
              "iter1", "iter2", "iter5", "npt_min", "npt_max", "hist1", "hist2", "default"}}
  \cup  \* every budget just above the number of interpolation points: some iteration evaluates twice
  {D(n, Const(n, bpk), x0, FALSE, obj, NoFault, "none", nl, "Bounds", opt, NoCb) :
     n \in {2, 3}, bpk \in {"free", "wide"}, x0 \in {"inside", "far"}, obj \in {"rosen", "nonsmooth", "cubic"},
     nl \in {"none", "nlc_ub", "sin_eq", "circle_eq"},
     opt \in {"fev_p3", "fev_p4", "fev_p5", "fev_p6", "fev_p7", "fev_p8", "fev_p9", "fev_p10", "fev_p11",
              "fev_p12", "fev_p13", "fev_p14", "fev_p15", "fev_p16", "fev_p17", "fev_p18", "fev_p19",
              "fev_p20", "fev_p21", "fev_p22"}}
  \cup  \* runs that end before the sampling: the single evaluation of the result assembly
  {D(n, bp, "inside", sc, obj, NoFault, lin, nl, "Bounds", opt, cb) :
     n \in {1, 2}, bp \in UNION {{Const(m, "fixed"), [i \in 1..m |-> IF i = 1 THEN "bad" ELSE "wide"]} : m \in {1, 2}},
     sc \in BOOLEAN, obj \in {"quad", "none"}, lin \in {"none", "ub"}, nl \in {"none", "nlc_ub"},
     opt \in {"default", "fev1", "hist1"}, cb \in {NoCb, <<"kw", 0>>}}
  \cup  \* callback stops with the history stored: the stopping evaluation is counted AND recorded
  {D(n, Const(n, "wide"), "inside", FALSE, "quad", NoFault, "none", nl, "Bounds", opt, cb) :
     n \in {2, 3}, nl \in {"none", "nlc_ub"}, opt \in {"default", "hist1", "hist2", "fev_3npt"},
     cb \in {<<"stop", k>> : k \in {1, 3, 6, 12}}}

(* ---- C06: call discipline ---------------------------------------------- *)
Universe_C06 ==
  {D(n, bp, "inside", sc, obj, NoFault, lin, nl, "Bounds", opt, cb) :
     n \in {2, 3}, bp \in UNION {FixSets(m) : m \in {2, 3}}, sc \in BOOLEAN,
     obj \in {"quad", "none"}, lin \in {"none", "two"},
     nl \in {"nlc_ub", "nlc_two", "nlc_eq", "dict_ineq", "dict_eq", "vector", "two_objs", "two_dicts"},
     opt \in {"default", "fev_3npt", "target", "disp"}, cb \in {NoCb, <<"pos", 0>>}}

Universe_C06b ==
  {D(n, bp, "inside", sc, "inplace", NoFault, lin, nl, "Bounds", opt, NoCb) :
     n \in {2, 3}, bp \in UNION {FixSets(m) : m \in {2, 3}}, sc \in BOOLEAN, lin \in {"none", "two"},
     nl \in {"nlc_ub", "nlc_eq", "dict_ineq", "vector", "two_dicts"}, opt \in {"default", "fev_3npt"}}

(* ---- C07 / C09: every way of ending, in every phase -------------------- *)
Stops(K) == {<<"stop", k>> : k \in K}
Universe_C07 ==
  {D(n, bp, "inside", sc, obj, NoFault, lin, nl, "Bounds", opt, cb) :
     n \in {1, 2}, bp \in UNION {{Const(m, "free"), Const(m, "wide"), Const(m, "fixed")} : m \in {1, 2}},
     sc \in {FALSE}, obj \in {"quad", "none"}, lin \in {"none", "ub"}, nl \in {"none", "nlc_ub", "nlc_eq"},
     opt \in {"default", "fev1", "fev_nptm1", "fev_npt", "fev_nptp1", "iter1", "iter2", "target",
              "tol0", "tol0_target", "tol0_target2"},
     cb \in {NoCb} \cup Stops({1, 2, 3, 6, 9})}
  \cup
  {D(2, <<"bad", "wide">>, "inside", FALSE, obj, NoFault, lin, nl, "Bounds", opt, cb) :
     obj \in {"quad", "none"}, lin \in {"none", "ub"}, nl \in {"none", "nlc_ub"},
     opt \in {"default", "fev1", "target"}, cb \in {NoCb, <<"stop", 1>>, <<"kw", 0>>}}
  \cup  \* linear constraints, fixed variables and scaling; runs that end during the sampling at a
       \* point whose linear feasibility differs from that of the start
  {D(n, bp, x0, sc, obj, NoFault, lin, nl, "Bounds", opt, NoCb) :
     n \in {2, 3}, bp \in UNION {FixSets(m) : m \in {2, 3}} \cup {<<"free", "free">>, <<"free", "free", "free">>},
     x0 \in {"zero", "inside", "onlower"}, sc \in BOOLEAN, obj \in {"quad", "none"},
     lin \in {"ub", "two", "eq", "mixed"}, nl \in {"none", "nlc_ub"},
     opt \in {"default", "target", "target2", "target3", "tol0_target", "tol0"}}
  \cup  \* the target is reached by a feasible point after infeasible points with lower objective
  {D(n, Const(n, "wide"), x0, sc, "quad", NoFault, lin, nl, "Bounds", opt, NoCb) :
     n \in {1, 2}, x0 \in {"onupper", "above", "mixed"}, sc \in BOOLEAN, lin \in {"ub", "two"},
     nl \in {"none", "nlc_ub"}, opt \in {"tol0_target", "tol0_target2", "target", "target2"}}

Universe_C09 ==
  {D(n, Const(n, bpk), "inside", sc, obj, NoFault, lin, nl, "Bounds", opt, cb) :
     n \in {1, 2, 3}, bpk \in {"free", "wide"}, sc \in BOOLEAN, obj \in {"quad", "rosen", "none"},
     lin \in {"none", "ub"}, nl \in {"none", "nlc_ub", "nlc_eq", "dict_ineq"},
     opt \in {"target", "target2", "target3", "default", "tol0", "tol0_target", "tol0_target2"},
     cb \in {NoCb} \cup Stops({1, 2, 4, 5, 7, 8, 11, 14, 19, 25})}
  \cup  \* the trigger placed at a given site, read off a reference run; and exactly at the budget
  {D(n, Const(n, bpk), "inside", sc, obj, NoFault, lin, nl, "Bounds", opt, cb) :
     n \in {2, 3}, bpk \in {"free", "wide"}, sc \in BOOLEAN, obj \in {"quad", "rosen", "nonsmooth"},
     lin \in {"none", "ub"}, nl \in {"none", "nlc_ub", "nlc_eq", "nlc_two"},
     opt \in {"default", "target_soc", "target_geo", "target_tr", "budget_target", "budget_target2",
              "fev_eq_stop"},
     cb \in {NoCb} \cup {<<k, i>> : k \in {"stop_soc", "stop_geo", "stop_tr"}, i \in {0, 1, 2}}
            \cup {<<"stop_initlast", 0>>, <<"stop", 6>>, <<"stop", 9>>}}
  \cup SocRich({"default", "target_soc", "target_geo"},
              {NoCb} \cup {<<k, i>> : k \in {"stop_soc", "stop_geo", "stop_tr"}, i \in {0, 1, 2, 3}})

(* ---- C08: fault sequences ---------------------------------------------- *)
Faults ==
  {<<k, w, i>> : k \in {"nan", "pinf", "ninf", "huge"}, w \in {"obj", "con"}, i \in {1, 2, 3, 5, 8, 13}}
  \cup {<<k, "region", 0>> : k \in {"nan", "pinf", "ninf", "huge"}}
  \cup {<<k, "all", 0>> : k \in {"nan", "pinf", "const", "zero", "collinear"}}
  \cup {<<"nan", "split", 0>>, <<"nan", "split2", 0>>}

Universe_C08 ==
  {D(n, Const(n, bpk), x0, sc, obj, flt, lin, nl, "Bounds", opt, cb) :
     n \in {1, 2}, bpk \in {"free", "wide"}, x0 \in {"inside"}, sc \in BOOLEAN, obj \in {"quad", "none"},
     flt \in Faults, lin \in {"none", "two"}, nl \in {"none", "nlc_two", "dict_eq", "vector"},
     opt \in {"default", "target_huge"}, cb \in {NoCb, <<"stop", 1>>, <<"kw", 0>>}}
  \cup  \* every admissible number of interpolation points, three and four variables
  {D(n, Const(n, bpk), "inside", sc, "quad", flt, "none", nl, "Bounds", opt, NoCb) :
     n \in {3, 4}, bpk \in {"free", "wide"}, sc \in BOOLEAN,
     flt \in {NoFault, <<"nan", "obj", 2>>, <<"pinf", "obj", 5>>}, nl \in {"none", "nlc_ub"},
     opt \in {"npt_max", "npt_3np1", "npt_3np2", "npt_min", "npt_2np2"}}
  \cup
  {D(n, bp, "inside", sc, obj, flt, lin, nl, "Bounds", "default", cb) :
     n \in {1, 2}, bp \in UNION {{Const(m, "fixed"), [i \in 1..m |-> IF i = 1 THEN "bad" ELSE "wide"],
                               [i \in 1..m |-> IF i = 1 THEN "fixed" ELSE "wide"]} : m \in {1, 2}},
     sc \in BOOLEAN, obj \in {"quad", "none"}, flt \in {NoFault, <<"nan", "obj", 1>>, <<"nan", "con", 1>>},
     lin \in {"none", "two", "contradictory"}, nl \in {"none", "nlc_ub", "dict_ineq"},
     cb \in {NoCb, <<"stop", 1>>, <<"kw", 0>>, <<"pos", 0>>}}

(* ---- C20: callbacks ----------------------------------------------------- *)
Universe_C20 ==
  {D(n, bp, "inside", sc, "quad", NoFault, lin, nl, "Bounds", opt, cb) :
     n \in {2, 3}, bp \in UNION {FixSets(m) : m \in {2, 3}}, sc \in BOOLEAN,
     lin \in {"none", "ub"}, nl \in {"none", "nlc_ub", "nlc_eq"}, opt \in {"fev_3npt", "default40"},
     cb \in {<<k, 0>> : k \in {"kw", "pos", "lambda_kw", "lambda_pos", "object_kw", "object_pos",
                               "partial_kw", "partial_pos", "overwrite_kw", "overwrite_pos"}}
            \cup {<<k, i>> : k \in {"stop", "stop_pos", "stop_overwrite"}, i \in {1, 2, 5, 6, 9, 17}}}

Universe_C20b ==   \* the callback stops exactly at a second-order-correction / geometry / trust-region evaluation
  SocRich({"default"}, {<<k, i>> : k \in {"stop_soc", "stop_geo", "stop_tr"}, i \in {0, 1, 2}})

(* ---- C03 / C18 / C12 (trace part): ordinary runs of all kinds ---------- *)
Universe_Runs ==
  {D(n, Const(n, bpk), x0, sc, obj, flt, lin, nl, "Bounds", opt, NoCb) :
     n \in {1, 2, 3}, bpk \in {"free", "wide", "narrow"}, x0 \in {"inside", "onlower"}, sc \in BOOLEAN,
     obj \in {"quad", "rosen", "nonsmooth"}, flt \in {NoFault, <<"nan", "obj", 1>>, <<"nan", "region", 0>>},
     lin \in {"none", "ub", "eq"}, nl \in {"none", "nlc_ub", "nlc_eq", "vector"},
     opt \in {"default", "filter1", "filter2", "npt_min", "npt_max", "hist1", "hist2"}}
  \cup SocRich({"default", "filter2", "npt_max", "hist2"}, {NoCb})
  \cup  \* starts close to (not on) a bound: the base point is moved, the start is not a sample
  {D(n, Const(n, bpk), x0, sc, obj, NoFault, "none", nl, "Bounds", opt, NoCb) :
     n \in {1, 2, 3}, bpk \in {"wide", "lower", "upper"}, x0 \in {"nearlower", "nearupper"}, sc \in BOOLEAN,
     obj \in {"quad", "rosen"}, nl \in {"none", "nlc_ub"}, opt \in {"default", "npt_min", "npt_max"}}
  \cup  \* radius options and radius-management constants over their documented domains
  {D(n, Const(n, bpk), x0, sc, obj, NoFault, lin, nl, "Bounds", opt, NoCb) :
     n \in {1, 2}, bpk \in {"free", "wide", "narrow"}, x0 \in {"inside"}, sc \in BOOLEAN,
     obj \in {"quad", "rosen"}, lin \in {"none", "ub"}, nl \in {"none", "nlc_ub", "nlc_eq"},
     opt \in {"rho_big", "rho_eq", "rho0", "rho_tiny", "rho_huge", "k_irf15", "k_irf11", "k_drt12",
              "k_drf25", "k_drf75", "k_res", "k_res2", "k_ratio", "k_pen", "k_misc"}}
  \cup  \* exact merit ties: objectives symmetric about the start, constraints that are not
  {D(n, Const(n, bpk), "zero", sc, obj, NoFault, lin, nl, "Bounds", opt, NoCb) :
     n \in {2, 3}, bpk \in {"free", "wide"}, sc \in {FALSE}, obj \in {"negsq", "negabs"},
     lin \in {"none", "two"}, nl \in {"plane_ub", "vector", "nlc_two", "circle_ge"},
     opt \in {"default", "npt_max", "npt_min", "fev_3npt"}}

(* ---- C12: initial sets with nb_points > 2n+1 started where only SOME coordinates are close to their
   upper bound (the cross points of the second block combine the first-block steps of two coordinates) *)
Universe_C12b ==
  {D(n, Const(n, bpk), x0, sc, obj, NoFault, "none", nl, "Bounds", opt, NoCb) :
     n \in {2, 3}, bpk \in {"wide", "upper"}, x0 \in {"nearmixed", "nearmixed2"}, sc \in BOOLEAN,
     obj \in {"quad", "rosen"}, nl \in {"none", "nlc_ub"}, opt \in {"npt_max", "npt_2np2", "npt_3np1"}}

(* ---- C11: cheap runs of every flavour, grouped into schedules by the harness *)
Universe_C11 ==
  {D(n, bp, "inside", sc, obj, NoFault, lin, nl, bf, opt, cb) :
     n \in {2, 3}, bp \in UNION {FixSets(m) : m \in {2, 3}} \cup {<<"free", "lower">>, <<"upper", "free", "wide">>},
     sc \in BOOLEAN, obj \in {"quad", "rosen"}, lin \in {"none", "two"}, nl \in {"none", "nlc_ub", "dict_ineq"},
     bf \in {"Bounds", "array", "Bounds_nan", "array_nan"},
     opt \in {"default40", "k_irf15", "k_drf25", "k_misc", "k_res", "fev_3npt"},
     cb \in {NoCb, <<"kw", 0>>, <<"pos", 0>>, <<"stop", 9>>}}

(* ---- C10: problems whose statement can be varied ----------------------- *)
Universe_C10 ==
  {D(n, bp, x0, sc, obj, NoFault, lin, nl, bf, opt, NoCb) :
     n \in {2, 3}, bp \in UNION {FixSets(m) : m \in {2, 3}} \cup {<<"lower", "upper">>, <<"wide", "fixed", "ugly">>},
     x0 \in {"inside", "onlower"}, sc \in BOOLEAN, obj \in {"quad", "rosen", "none"},
     lin \in {"none", "ub", "two", "eq", "mixed"}, nl \in {"none", "nlc_ub", "nlc_two", "dict_ineq", "dict_eq", "vector", "two_dicts"},
     bf \in {"Bounds", "array"}, opt \in {"default40", "fev_3npt"}}

Universe(id) ==
  CASE id = "C10" -> Universe_C10
    [] id = "C11" -> Universe_C11
    [] id = "C12b" -> Universe_C12b
    [] id = "C01" -> Universe_C01
    [] id = "C02" -> Universe_C02
    [] id = "C05" -> Universe_C05
    [] id = "C06" -> Universe_C06 \cup Universe_C06b
    [] id = "C07" -> Universe_C07
    [] id = "C08" -> Universe_C08
    [] id = "C09" -> Universe_C09
    [] id = "C20" -> Universe_C20 \cup Universe_C20b
    [] id = "Runs" -> Universe_Runs

Emit == LET U == {d \in Universe(IOEnv.UNIVERSE_ID) : WellFormed(d)}
        IN /\ JsonSerialize(IOEnv.UNIVERSE_OUT, SetToSeq(U))
           /\ PrintT(<<"UNIVERSE", IOEnv.UNIVERSE_ID, Cardinality(U)>>)
ASSUME Emit

VARIABLE dummy
UInit == dummy = 0
UNext == UNCHANGED dummy
=============================================================================
