------------------------------ MODULE Presolve ------------------------------
(***************************************************************************)
(* Property C10 (presolve part): eliminating the variables fixed by equal  *)
(* bounds and scaling the remaining ones to [-1, 1] transforms the linear  *)
(* constraints  lb <= A x <= ub  so that the internal residuals equal the  *)
(* user's residuals at the corresponding original point.                   *)
(*                                                                         *)
(* Integer data: bounds with even widths (so that the scaling factor       *)
(* (u - l) / 2 and shift (u + l) / 2 are integers), integer rows and       *)
(* limits.  TLC computes the expected internal system exactly:             *)
(*   reduce:  a' = A[:, free],        b' = b - A[:, fixed] xfixed          *)
(*   scale :  a'' = a' diag(factor),  b'' = b' - a' shift                  *)
(* for the inequality rows (A x <= ub and -A x <= -lb, infinite sides      *)
(* dropped) and the equality rows (lb = ub), and checks the residual       *)
(* identity at lattice points of the internal space (ASSUME-level theorem  *)
(* ResidualIdentity).  The harness compares with the Problem object that   *)
(* minimize builds.                                                        *)
(***************************************************************************)
EXTENDS Integers, Sequences, FiniteSets, TLC, Json, IOUtils, SequencesExt

Inf == 100000
RECURSIVE SumTo(_, _)
SumTo(f, m) == IF m = 0 THEN 0 ELSE f[m] + SumTo(f, m - 1)
Dot(a, b) == SumTo([i \in 1..Len(a) |-> a[i] * b[i]], Len(a))

\* bounds per variable: <<l, u>>
BKinds == {<<-2, 2>>, <<0, 4>>, <<1, 1>>, <<-4, 0>>, <<-3, -3>>, <<-1, 5>>}
IsFixed(b) == b[1] = b[2]
FreeIdx(bd) == SelectSeq([i \in 1..Len(bd) |-> i], LAMBDA i : ~IsFixed(bd[i]))
FixIdx(bd)  == SelectSeq([i \in 1..Len(bd) |-> i], LAMBDA i : IsFixed(bd[i]))
Factor(b) == (b[2] - b[1]) \div 2
Shift(b)  == (b[2] + b[1]) \div 2

\* one user row [a, lb, ub] -> internal rows
Reduce(row, bd) ==     \* <<a restricted to free vars, constant contributed by fixed vars>>
  LET fr == FreeIdx(bd)
      fx == FixIdx(bd)
      c == SumTo([k \in 1..Len(fx) |-> row.a[fx[k]] * bd[fx[k]][1]], Len(fx))
  IN <<[k \in 1..Len(fr) |-> row.a[fr[k]]], c>>

ScaleRow(a, bd, sc) ==   \* <<a'' , constant a' . shift>>
  LET fr == FreeIdx(bd)
  IN IF sc THEN <<[k \in 1..Len(fr) |-> a[k] * Factor(bd[fr[k]])],
                  SumTo([k \in 1..Len(fr) |-> a[k] * Shift(bd[fr[k]])], Len(fr))>>
     ELSE <<a, 0>>

Neg(a) == [k \in 1..Len(a) |-> -a[k]]

\* expected internal inequality rows (as a bag: sequence, order irrelevant) and equality rows
InternalUb(rows, bd, sc) ==
  LET one(r) == LET red == Reduce(r, bd)
                    scl == ScaleRow(red[1], bd, sc)
                    cst == red[2] + scl[2]
                IN (IF r.lb # r.ub /\ r.ub < Inf THEN << <<scl[1], r.ub - cst>> >> ELSE <<>>)
                   \o (IF r.lb # r.ub /\ r.lb > -Inf THEN << <<Neg(scl[1]), -(r.lb - cst)>> >> ELSE <<>>)
      RECURSIVE All(_)
      All(i) == IF i = 0 THEN <<>> ELSE All(i - 1) \o one(rows[i])
  IN All(Len(rows))
InternalEq(rows, bd, sc) ==
  LET one(r) == LET red == Reduce(r, bd)
                    scl == ScaleRow(red[1], bd, sc)
                IN IF r.lb = r.ub THEN << <<scl[1], r.lb - red[2] - scl[2]>> >> ELSE <<>>
      RECURSIVE All(_)
      All(i) == IF i = 0 THEN <<>> ELSE All(i - 1) \o one(rows[i])
  IN All(Len(rows))

\* the original point of an internal point y
Orig(y, bd, sc) ==
  LET fr == FreeIdx(bd)
      pos(i) == CHOOSE k \in 1..Len(fr) : fr[k] = i
  IN [i \in 1..Len(bd) |-> IF IsFixed(bd[i]) THEN bd[i][1]
                           ELSE IF sc THEN y[pos(i)] * Factor(bd[i]) + Shift(bd[i]) ELSE y[pos(i)]]

\* theorem: internal residual = user residual at the original point
ResidualIdentity(rows, bd, sc, y) ==
  LET x == Orig(y, bd, sc)
      iu == InternalUb(rows, bd, sc)
      uu == LET one(r) == (IF r.lb # r.ub /\ r.ub < Inf THEN << Dot(r.a, x) - r.ub >> ELSE <<>>)
                          \o (IF r.lb # r.ub /\ r.lb > -Inf THEN << r.lb - Dot(r.a, x) >> ELSE <<>>)
                RECURSIVE All(_)
                All(i) == IF i = 0 THEN <<>> ELSE All(i - 1) \o one(rows[i])
            IN All(Len(rows))
  IN /\ Len(iu) = Len(uu)
     /\ \A k \in 1..Len(iu) : Dot(iu[k][1], y) - iu[k][2] = uu[k]

Rows3 == { [a |-> a, lb |-> l, ub |-> u] :
             a \in {<<1, 2, -1>>, <<0, 1, 1>>, <<2, 0, 3>>}, l \in {-Inf, -2, 3}, u \in {3, 6, Inf} }
Rows2 == { [a |-> a, lb |-> l, ub |-> u] :
             a \in {<<1, 2>>, <<0, 1>>, <<2, -3>>}, l \in {-Inf, -2, 3}, u \in {3, 6, Inf} }
OkRow(r) == r.lb <= r.ub /\ ~(r.lb = -Inf /\ r.ub = Inf)

Case(bd, rows, sc) ==
  [bd |-> bd, rows |-> rows, sc |-> sc,
   free |-> FreeIdx(bd), ub |-> InternalUb(rows, bd, sc), eq |-> InternalEq(rows, bd, sc),
   lo |-> [k \in 1..Len(FreeIdx(bd)) |-> IF sc THEN -1 ELSE bd[FreeIdx(bd)[k]][1]],
   hi |-> [k \in 1..Len(FreeIdx(bd)) |-> IF sc THEN 1 ELSE bd[FreeIdx(bd)[k]][2]]]

Universe(id) ==
  CASE id = "n3" -> {Case(bd, <<r1, r2>>, sc) :
                       bd \in {b \in [1..3 -> {<<-2, 2>>, <<1, 1>>, <<-1, 5>>, <<-3, -3>>}] : \E i \in 1..3 : ~IsFixed(b[i])},
                       r1 \in {r \in Rows3 : OkRow(r) /\ r.a = <<1, 2, -1>>},
                       r2 \in {r \in Rows3 : OkRow(r) /\ r.a # <<1, 2, -1>>}, sc \in BOOLEAN}
    [] id = "n2" -> {Case(bd, <<r1>>, sc) :
                       bd \in {b \in [1..2 -> BKinds] : \E i \in 1..2 : ~IsFixed(b[i])},
                       r1 \in {r \in Rows2 : OkRow(r)}, sc \in BOOLEAN}

Lattice(k) == [1..k -> {-1, 0, 1}]
TheoremHolds(id) == \A c \in Universe(id) : \A y \in Lattice(Len(c.free)) :
                       ResidualIdentity(c.rows, c.bd, c.sc, y)

Emit == IF "UNIVERSE_OUT" \in DOMAIN IOEnv
        THEN /\ TheoremHolds(IOEnv.UNIVERSE_ID)
             /\ JsonSerialize(IOEnv.UNIVERSE_OUT, SetToSeq(Universe(IOEnv.UNIVERSE_ID)))
             /\ PrintT(<<"UNIVERSE", IOEnv.UNIVERSE_ID, Cardinality(Universe(IOEnv.UNIVERSE_ID))>>)
        ELSE TRUE
ASSUME Emit
VARIABLE dummy
PInit == dummy = 0
PNext == UNCHANGED dummy
=============================================================================
