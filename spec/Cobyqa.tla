------------------------------- MODULE Cobyqa -------------------------------
(***************************************************************************)
(* Design model of ONE call of minimize: the control flow of               *)
(* cobyqa/main.py (argument screening, the evaluation made while           *)
(* assembling the result when nothing was evaluated, the initial sampling  *)
(* of Models.__init__, the trust-region loop with its trust-region /       *)
(* second-order-correction / geometry evaluations, every exit path and     *)
(* _build_result), as a generator of the events of CobyqaCore.tla.         *)
(*                                                                         *)
(* One action per observable call; an evaluation is the sequence           *)
(*   EB ; Obj? ; Con_1 .. Con_NCon ; Cb? ; EE                              *)
(* as Problem.__call__ performs it.  Numerical outcomes that the model     *)
(* cannot compute (objective / violation values, is the step short, does   *)
(* the penalty change the centre, linear-algebra failures, has the         *)
(* resolution reached its final value) are nondeterministic choices.       *)
(*                                                                         *)
(* The model describes the tree AS REPAIRED.  The original behaviours are  *)
(* kept as named deviations, selected by constants, so that TLC shows the  *)
(* shortest counterexample of each (sanity of the clauses):                *)
(*   SamplingBudgetStatus = 6  : MaxEvalError of the sampling mapped to    *)
(*                               "maximum number of iterations"            *)
(*   CountInObjective = TRUE   : evaluations counted by the objective      *)
(*                               wrapper only (nfev = 0 when fun is None)  *)
(*   CallbackFirst = TRUE      : callback invoked before the filter update *)
(*   EscapeAtResult = TRUE     : CallbackSuccess not caught in best_eval   *)
(*   HistKeepsOldest = TRUE    : a full history drops the newest entry     *)
(*                               instead of the oldest (a seeded fault)    *)
(***************************************************************************)
EXTENDS CobyqaCore

CONSTANTS MaxFev, MaxIter, Npt, HasObj, NCon, HasCb, Consistent, AllFixed,
          TargetKey,            \* key of the target: 0 (reachable) or NInf (never)
          FVals, CVals,         \* abstract objective / violation values
          SamplingBudgetStatus, CountInObjective, CallbackFirst, EscapeAtResult,
          Store, HSize,         \* store_history, history_size (0 = unbounded)
          HistKeepsOldest       \* deviation: the truncation drops the newest entry

VARIABLES pc, ph, cur, k, nitL, exitS, st, viol, hist
vars == <<pc, ph, cur, k, nitL, exitS, st, viol, hist>>

H == [n |-> 1, lb |-> <<NInf>>, ub |-> <<PInf>>, consistent |-> Consistent,
      fixed |-> <<FALSE>>, allfixed |-> AllFixed, maxfev |-> MaxFev, maxiter |-> MaxIter,
      npt |-> Npt, hsize |-> HSize, fsize |-> 0, store |-> Store, hasobj |-> HasObj,
      ncon |-> NCon, hascb |-> HasCb, cbsig |-> "kw", kTol |-> 0, kTarget |-> TargetKey,
      kPInf |-> PInf, kNInf |-> NInf, kBarP |-> 500, kBarN |-> -500, kZero |-> 0,
      valid |-> TRUE, pure |-> TRUE, enhBound |-> 0]

FinH(v) == Fin(H, v)
Emit(ev) == /\ st' = Step(H, st, ev)
            /\ viol' = viol \cup Failed(H, st, ev)

NoCur == [f |-> 0, cv |-> 0, stop |-> FALSE, pen |-> 0]
PointOf(i) == <<i>>                      \* the i-th evaluated point (distinct keys)

MeritsOf(F, CV, pen) == [i \in DOMAIN F |-> AddA(F[i], MulA(pen, CV[i]))]

Init ==
  /\ pc = "Start" /\ ph = "NONE" /\ cur = NoCur /\ k = 0 /\ nitL = 0
  /\ exitS = [status |-> 99, succ |-> FALSE]
  /\ st = InitState(H) /\ viol = {} /\ hist = <<>>

(* ------------------------------------------------------------ evaluation *)
\* begin an evaluation at site s; afterwards control returns through AfterEval
BeginEval(s) ==
  \E f \in (IF HasObj THEN FVals ELSE {0}), cv \in CVals, stop \in (IF HasCb THEN BOOLEAN ELSE {FALSE}),
     pen \in (IF s \in {"INIT", "RESULT"} THEN {0} ELSE {0, 1}) :
    /\ cur' = [f |-> f, cv |-> cv, stop |-> stop, pen |-> pen]
    /\ ph' = s
    /\ Emit([e |-> "EB", site |-> s, xin |-> PointOf(st.nev + 1), loW |-> <<NInf>>,
             hiW |-> <<PInf>>, bfeas |-> Consistent])
    /\ pc' = IF HasObj THEN "Obj" ELSE IF NCon > 0 THEN "Con" ELSE IF HasCb THEN "Cb" ELSE "EE"
    /\ UNCHANGED <<k, nitL, exitS, hist>>

ObjCall ==
  /\ pc = "Obj"
  /\ Emit([e |-> "Obj", inwin |-> TRUE, x |-> PointOf(st.nev + 1), v |-> cur.f])
  /\ pc' = IF NCon > 0 THEN "Con" ELSE IF HasCb THEN "Cb" ELSE "EE"
  /\ UNCHANGED <<ph, cur, k, nitL, exitS>>
  /\ UNCHANGED hist

ConCall ==
  /\ pc = "Con"
  /\ \E j \in 1..NCon :
       /\ st.win.ncon[j] = 0 /\ \A i \in 1..(j - 1) : st.win.ncon[i] = 1
       /\ Emit([e |-> "Con", j |-> j, inwin |-> TRUE, x |-> PointOf(st.nev + 1)])
       /\ pc' = IF j < NCon THEN "Con" ELSE IF HasCb THEN "Cb" ELSE "EE"
  /\ UNCHANGED <<ph, cur, k, nitL, exitS>>
  /\ UNCHANGED hist

\* the filter as it is when the callback runs
FiltAtCb ==
  IF CallbackFirst THEN [F |-> st.F, CV |-> st.CV, flt |-> st.flt]
  ELSE LET F1 == Append(st.F, cur.f)
           C1 == Append(st.CV, cur.cv)
       IN [F |-> F1, CV |-> C1,
           flt |-> FilterAfter("nanaware", F1, C1, st.flt, st.nev + 1, cur.f, cur.cv, 0)]

CbCall ==
  /\ pc = "Cb"
  /\ LET q == FiltAtCb
         b == IF Len(q.flt) = 0 THEN st.nev + 1   \* (CallbackFirst on the first evaluation)
              ELSE BestOfRetained(q.F, q.CV, MeritsOf(q.F, q.CV, cur.pen), q.flt, 0, FinH)
         fb == IF b <= Len(q.F) THEN q.F[b] ELSE cur.f
     IN Emit([e |-> "Cb", inwin |-> TRUE, conv |-> "kw", hasf |-> TRUE, x |-> PointOf(b), f |-> fb,
              raised |-> IF cur.stop THEN "StopIteration" ELSE "none",
              haswould |-> FALSE, would |-> <<>>, wouldf |-> NaN])
  /\ pc' = "EE"
  /\ UNCHANGED <<ph, cur, k, nitL, exitS>>
  /\ UNCHANGED hist

EvalEnd ==
  /\ pc = "EE"
  /\ LET F1 == Append(st.F, cur.f)
         C1 == Append(st.CV, cur.cv)
         out0 == ClipA(cur.f, 500)
     IN Emit([e |-> "EE", site |-> ph, completed |-> TRUE, hascv |-> TRUE, cv |-> cur.cv, cvT |-> cur.cv,
              cvLo |-> cur.cv, cvHi |-> cur.cv, f |-> cur.f, xu |-> PointOf(st.nev + 1),
              hasxu |-> TRUE, out |-> <<out0>>, outok |-> TRUE,
              exc |-> IF cur.stop THEN "CallbackSuccess" ELSE "none",
              merit |-> IF HasCb THEN MeritsOf(F1, C1, cur.pen) ELSE <<>>])
  /\ pc' = "After"
  /\ hist' = IF ~Store THEN hist
             ELSE LET h1 == Append(hist, <<cur.f, cur.cv>>)
                  IN IF HSize > 0 /\ Len(h1) > HSize
                     THEN (IF HistKeepsOldest THEN SubSeq(h1, 1, HSize) ELSE Tail(h1))
                     ELSE h1
  /\ UNCHANGED <<ph, cur, k, nitL, exitS>>

(* ------------------------------------------------------- control flow *)
Exit(status, succ) == /\ pc' = "Result" /\ exitS' = [status |-> status, succ |-> succ]

Tgt == Le(cur.f, TargetKey) /\ Le(cur.cv, 0)
Fea == ~HasObj /\ Le(cur.cv, 0)

Start ==
  /\ pc = "Start"
  /\ IF ~Consistent THEN /\ pc' = "ResultEval" /\ exitS' = [status |-> -1, succ |-> FALSE]
     ELSE IF AllFixed THEN /\ pc' = "ResultEval" /\ exitS' = [status |-> 2, succ |-> TRUE]
     ELSE /\ pc' = "Sample" /\ UNCHANGED exitS
  /\ UNCHANGED <<ph, cur, k, nitL, st, viol>>
  /\ UNCHANGED hist

\* best_eval on an empty filter evaluates the initial guess
ResultEval == pc = "ResultEval" /\ BeginEval("RESULT")

\* Models.__init__: point 0 is evaluated before the budget test of the loop
Sample ==
  /\ pc = "Sample"
  /\ IF k >= Npt THEN
        \/ pc' = "IterTop" /\ UNCHANGED <<ph, cur, k, nitL, exitS, st, viol>>
        \/ Exit(-2, FALSE) /\ UNCHANGED <<ph, cur, k, nitL, st, viol>>     \* singular system
     ELSE IF k >= MaxFev THEN
        Exit(SamplingBudgetStatus, FALSE) /\ UNCHANGED <<ph, cur, k, nitL, st, viol>>
     ELSE BeginEval("INIT")
  /\ UNCHANGED hist

After ==
  /\ pc = "After"
  /\ UNCHANGED <<ph, cur, st, viol>>
  /\ IF ph = "RESULT" THEN
        IF cur.stop /\ EscapeAtResult THEN pc' = "Escaped" /\ UNCHANGED <<k, nitL, exitS>>
        ELSE pc' = "Result" /\ UNCHANGED <<k, nitL, exitS>>
     ELSE IF cur.stop THEN Exit(3, TRUE) /\ UNCHANGED <<k, nitL>>
     ELSE IF ph = "INIT" THEN
        IF Fea THEN Exit(4, TRUE) /\ UNCHANGED <<k, nitL>>
        ELSE IF Tgt THEN Exit(1, TRUE) /\ UNCHANGED <<k, nitL>>
        ELSE pc' = "Sample" /\ k' = k + 1 /\ UNCHANGED <<nitL, exitS>>
     ELSE IF Tgt THEN Exit(1, TRUE) /\ UNCHANGED <<k, nitL>>
     ELSE IF Fea THEN Exit(4, TRUE) /\ UNCHANGED <<k, nitL>>
     ELSE /\ UNCHANGED <<k, nitL, exitS>>
          /\ \/ ph = "TR" /\ pc' \in {"SOC", "Update"}
             \/ ph = "SOC" /\ pc' = "Update"
             \/ ph = "GEO" /\ pc' = "IterTop"
  /\ UNCHANGED hist

IterTop ==
  /\ pc = "IterTop"
  /\ IF nitL >= MaxIter THEN Exit(6, FALSE) /\ UNCHANGED <<ph, cur, k, nitL, st, viol>>
     ELSE /\ nitL' = nitL + 1
          /\ Emit([e |-> "It"])
          /\ pc' \in {"Short", "Normal"}
          /\ UNCHANGED <<ph, cur, k, exitS>>
  /\ UNCHANGED hist

\* trust-region step too short: reduce the radius, then enhance / improve / neither
Short ==
  /\ pc = "Short"
  /\ \/ pc' = "Enhance" \/ pc' = "Geometry" \/ pc' = "IterTop"
     \/ Exit(-2, FALSE)
  /\ IF pc' = "Result" THEN UNCHANGED <<ph, cur, k, nitL, st, viol>>
     ELSE UNCHANGED <<ph, cur, k, nitL, exitS, st, viol>>
  /\ UNCHANGED hist

\* increase_penalty may change the centre: then the iteration restarts
Normal ==
  /\ pc = "Normal"
  /\ \/ pc' = "IterTop" /\ UNCHANGED <<ph, cur, k, nitL, exitS, st, viol>>
     \/ pc' = "EvalTR" /\ UNCHANGED <<ph, cur, k, nitL, exitS, st, viol>>
  /\ UNCHANGED hist

BudgetOr(site) ==
  IF (IF CountInObjective /\ ~HasObj THEN 0 ELSE st.nev) >= MaxFev
  THEN Exit(5, FALSE) /\ UNCHANGED <<ph, cur, k, nitL, st, viol, hist>>
  ELSE BeginEval(site)

EvalTR  == pc = "EvalTR" /\ BudgetOr("TR")
SOC     == pc = "SOC" /\ BudgetOr("SOC")
Geometry == pc = "Geometry" /\ \/ BudgetOr("GEO")
                               \/ Exit(-2, FALSE) /\ UNCHANGED <<ph, cur, k, nitL, st, viol, hist>>

\* index choice, model update, radius update, multipliers; then the decision
Update ==
  /\ pc = "Update"
  /\ \/ pc' \in {"Enhance", "Geometry", "IterTop"} /\ UNCHANGED exitS
     \/ Exit(-2, FALSE)
  /\ UNCHANGED <<ph, cur, k, nitL, st, viol>>
  /\ UNCHANGED hist

Enhance ==
  /\ pc = "Enhance"
  /\ \/ Exit(0, TRUE)                                   \* resolution already final
     \/ pc' \in {"Geometry", "IterTop"} /\ UNCHANGED exitS
  /\ UNCHANGED <<ph, cur, k, nitL, st, viol>>
  /\ UNCHANGED hist

\* _build_result
Result ==
  /\ pc = "Result"
  /\ \E pen \in {0, 1} :
       LET M  == MeritsOf(st.F, st.CV, pen)
           b  == BestOfRetained(st.F, st.CV, M, st.flt, 0, FinH)
           f  == st.F[b]
           cv == st.CV[b]
           s  == exitS.status
           ok == /\ exitS.succ /\ FinH(f) /\ FinH(cv)
                 /\ (s \notin {1, 4} => Le(cv, 0))
           nf == IF CountInObjective /\ ~HasObj THEN 0 ELSE st.nev
       IN Emit([e |-> "Res", well |-> TRUE, status |-> s, midx |-> s, hasfw |-> TRUE,
                resol |-> 7, rhoend |-> 7, f |-> f, cv |-> cv, nfev |-> nf, nit |-> nitL,
                success |-> ok, hashist |-> Store,
                hf |-> [i \in 1..Len(hist) |-> hist[i][1]], hc |-> [i \in 1..Len(hist) |-> hist[i][2]],
                x |-> PointOf(b), merit |-> M])
  /\ pc' = "Done"
  /\ UNCHANGED <<ph, cur, k, nitL, exitS>>
  /\ UNCHANGED hist

Escaped ==
  /\ pc = "Escaped"
  /\ Emit([e |-> "Raise", type |-> "CallbackSuccess"])
  /\ pc' = "Done"
  /\ UNCHANGED <<ph, cur, k, nitL, exitS>>
  /\ UNCHANGED hist

Next ==
  \/ Start \/ ResultEval \/ Sample \/ ObjCall \/ ConCall \/ CbCall \/ EvalEnd \/ After
  \/ IterTop \/ Short \/ Normal \/ EvalTR \/ SOC \/ Geometry \/ Update \/ Enhance
  \/ Result \/ Escaped

Spec == Init /\ [][Next]_vars /\ WF_vars(Next)

(* -------------------------------------------------------------- properties *)
HoldsD(pid) == \A c \in viol : Prefix(c, 3) # pid
D_C01 == HoldsD("C01")
D_C02 == HoldsD("C02")
D_C03 == HoldsD("C03")
D_C05 == HoldsD("C05")
D_C06 == HoldsD("C06")
D_C07 == HoldsD("C07")
D_C08 == HoldsD("C08")
D_C09 == HoldsD("C09")
D_C20 == HoldsD("C20")
NoViolation == viol = {}

Budget == st.nev <= MaxFev /\ st.nit <= MaxIter /\ nitL = st.nit
Terminates == <>(pc = "Done")          \* minimize always returns (C08)
=============================================================================
