---------------------------- MODULE TrustRegion ----------------------------
(***************************************************************************)
(* Property C18 (radius / resolution part): the rules that manage the      *)
(* trust-region radius and the resolution, on an exact dyadic lattice.     *)
(*                                                                         *)
(* Lengths are integers in units of 2^-12; the radius-management constants *)
(* are rationals <<p, q>> with q a power of two, chosen in the initial     *)
(* state from the boundary lattice of their documented domains, so every   *)
(* product is exact both here and in double precision.  Behaviours in      *)
(* which a product would not be an integer number of units are cut off     *)
(* (Exact), not rounded.                                                   *)
(*                                                                         *)
(* Actions = the places where the code touches radius or resolution:       *)
(*   SetRadius      the radius setter (snap to the resolution)             *)
(*   UpdateRadius   update_radius(step, ratio), three ratio classes        *)
(*   ShortStep      the radius reduction of the short-step branch          *)
(*   Enhance        enhance_resolution (three regimes) or exit with        *)
(*                  status 0 when the resolution is already final          *)
(* The same transitions are exported (Export) and replayed one by one      *)
(* into a real TrustRegion object.                                         *)
(*                                                                         *)
(* ClampResolution = FALSE is the original rule of enhance_resolution,     *)
(* kept as a named deviation: with large_resolution_threshold *            *)
(* decrease_resolution_factor < 1 (both inside their documented domains)   *)
(* the resolution drops below radius_final.                                *)
(***************************************************************************)
EXTENDS Integers, Sequences, FiniteSets, TLC, Json

CONSTANTS RhoBegs, RhoEnds,       \* sets of initial / final radii (units)
          DRFs, IRFs, IRTs, DRTs, DRESFs, LARGEs, MODs,   \* sets of rationals <<p, q>>
          ClampResolution, MaxSteps

VARIABLES radius, resol, rhoend, k, nEnh, status, steps, last
vars == <<radius, resol, rhoend, k, nEnh, status, steps, last>>
\* k: the constants of this run  [drf, irf, irt, drt, dresf, large, mod]

Lt(a, b) == a[1] * b[2] < b[1] * a[2]          \* rationals
Le(a, b) == a[1] * b[2] <= b[1] * a[2]
Exact(v, q) == (v * q[1]) % q[2] = 0
Mul(v, q) == (v * q[1]) \div q[2]
Max(a, b) == IF a >= b THEN a ELSE b
Min(a, b) == IF a <= b THEN a ELSE b
\* v <= q * w  for length v, w and rational q
LeMul(v, q, w) == v * q[2] <= q[1] * w
LtMul(q, w, v) == q[1] * w < v * q[2]          \* q * w < v

ISqrtExact(x) == \E r \in 0..4096 : r * r = x
ISqrt(x) == CHOOSE r \in 0..4096 : r * r = x

Snap(r, res, kk) == IF LeMul(r, kk.drt, res) THEN res ELSE r     \* the radius setter

Init ==
  /\ \E rb \in RhoBegs, re \in RhoEnds, drf \in DRFs, irf \in IRFs, irt \in IRTs, drt \in DRTs,
        dresf \in DRESFs, large \in LARGEs, mod \in MODs :
       /\ re <= rb /\ Lt(drt, irf) /\ Le(mod, large)
       /\ k = [drf |-> drf, irf |-> irf, irt |-> irt, drt |-> drt, dresf |-> dresf,
               large |-> large, mod |-> mod]
       /\ radius = rb /\ resol = rb /\ rhoend = re
  /\ nEnh = 0 /\ status = "run" /\ steps = 0
  /\ last = [a |-> "init", ratio |-> "none", s |-> 0, r0 |-> 0, res0 |-> 0]

Running == status = "run" /\ steps < MaxSteps

\* update_radius(step, ratio)
UpdateRadius(cls, s) ==
  /\ Running
  /\ Exact(radius, k.drf) /\ Exact(radius, k.irf) /\ Exact(s, k.irt)
  /\ LET low  == Mul(radius, k.drf)
         new  == CASE cls = "low"  -> low
                   [] cls = "mid"  -> Max(low, s)
                   [] cls = "high" -> Min(Mul(radius, k.irf), Max(low, Mul(s, k.irt)))
     IN radius' = Snap(new, resol, k)
  /\ last' = [a |-> "update", ratio |-> cls, s |-> s, r0 |-> radius, res0 |-> resol]
  /\ steps' = steps + 1
  /\ UNCHANGED <<resol, rhoend, k, nEnh, status>>

\* the short-step branch: radius *= decrease_resolution_factor (through the setter)
ShortStep ==
  /\ Running
  /\ Exact(radius, k.dresf)
  /\ radius' = Snap(Mul(radius, k.dresf), resol, k)
  /\ last' = [a |-> "short", ratio |-> "none", s |-> 0, r0 |-> radius, res0 |-> resol]
  /\ steps' = steps + 1
  /\ UNCHANGED <<resol, rhoend, k, nEnh, status>>

\* "Reduce the resolution if necessary": only entered when the radius was at the resolution
Enhance ==
  /\ Running
  /\ radius = resol
  /\ IF resol <= rhoend
     THEN /\ status' = "status0"
          /\ UNCHANGED <<radius, resol, nEnh>>
          /\ last' = [a |-> "exit0", ratio |-> "none", s |-> 0, r0 |-> radius, res0 |-> resol]
     ELSE /\ Exact(resol, k.dresf) /\ Exact(radius, k.drf)
          /\ LtMul(k.large, rhoend, resol) \/ ~LtMul(k.mod, rhoend, resol) \/ ISqrtExact(resol * rhoend)
          /\ LET r1 == IF LtMul(k.large, rhoend, resol)
                       THEN (IF ClampResolution THEN Max(Mul(resol, k.dresf), rhoend)
                             ELSE Mul(resol, k.dresf))
                       ELSE IF LtMul(k.mod, rhoend, resol) THEN ISqrt(resol * rhoend)
                       ELSE rhoend
             IN /\ resol' = r1
                /\ radius' = Max(Mul(radius, k.drf), r1)
          /\ nEnh' = nEnh + 1
          /\ status' = status
          /\ last' = [a |-> "enhance", ratio |-> "none", s |-> 0, r0 |-> radius, res0 |-> resol]
  /\ steps' = steps + 1
  /\ UNCHANGED <<rhoend, k>>

StepNorms == {resol, Max(resol \div 2, 1), radius, 2 * radius, radius \div 2}

Next ==
  \/ \E cls \in {"low", "mid", "high"}, s \in StepNorms : s > 0 /\ UpdateRadius(cls, s)
  \/ ShortStep
  \/ Enhance

Spec == Init /\ [][Next]_vars

(* ------------------------------------------------------------ properties *)
Order      == rhoend <= resol /\ resol <= radius          \* radius_final <= resolution <= radius
Status0    == status = "status0" => resol = rhoend
ResMono    == [][resol' <= resol]_vars
\* the number of reductions is bounded by the logarithm of the ratio (base 2 is the weakest
\* bound that every admissible factor < 1 with power-of-two denominator satisfies)
Log2(x) == CHOOSE e \in 0..40 : 2 ^ e <= x /\ x < 2 ^ (e + 1)
RhoBegMax  == CHOOSE m \in RhoBegs : \A x \in RhoBegs : x <= m
Bounded    == rhoend > 0 => nEnh <= Log2(2 * (RhoBegMax \div rhoend)) + 2

\* one JSON line per distinct transition, for replay into a real TrustRegion
Export == last.a = "init" \/ PrintT("EXPORT " \o ToJson([k |-> k, rhoend |-> rhoend, last |-> last,
                                                         radius |-> radius, resol |-> resol,
                                                         status |-> status]))
=============================================================================
