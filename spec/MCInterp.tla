------------------------------ MODULE MCInterp ------------------------------
(* Model-checking wrapper for Interp.tla (lattices a cfg cannot spell).     *)
EXTENDS Interp
C1 == -4..4
C2 == -1..1
V2 == {-2, 1}
V3 == {-2, 0, 1}
NP1 == {2, 3}
NP2 == {3, 4, 5, 6}
=============================================================================
