------------------------------- MODULE Filter -------------------------------
(***************************************************************************)
(* Design-level state machine of the evaluation record and the filter      *)
(* (property C03): every finite sequence of (objective, violation) pairs   *)
(* over an abstract domain of extended integers.  The operators it uses    *)
(* (Acceptable, FilterAfter, BestOfRetained) live in Filter0.tla, which is *)
(* shared with the trace specification.                                    *)
(***************************************************************************)
EXTENDS Filter0, Json

(* --- design-level state machine (abstract extended integers) ----------- *)

CONSTANTS FDom, CVDom,     \* value domains (subsets of Int \cup {NaN,PInf,NInf})
          Penalties,       \* set of penalties >= 0
          Tols,            \* set of feasibility tolerances
          FilterSize,      \* 0 = unbounded
          MaxLen,          \* bound on the number of evaluations
          Rule             \* "nanaware" | "pinned"

VARIABLES F, CV, flt

fvars == <<F, CV, flt>>

FInit == F = <<>> /\ CV = <<>> /\ flt = <<>>

Record(f, cv) ==
  /\ Len(F) < MaxLen
  /\ F'  = Append(F, f)
  /\ CV' = Append(CV, cv)
  /\ flt' = FilterAfter(Rule, F', CV', flt, Len(F) + 1, f, cv, FilterSize)

FNext == \E f \in FDom, cv \in CVDom : Record(f, cv)

FSpec == FInit /\ [][FNext]_fvars

MeritsA(p) == [i \in DOMAIN F |-> AddA(F[i], MulA(p, CV[i]))]

\* --- invariants (C03) ---
RetainedAreEvaluations == SeqRange(flt) \subseteq DOMAIN F
NonEmptyAfterFirst == Len(F) > 0 => Len(flt) > 0
SizeRespected == FilterSize > 0 => Len(flt) <= FilterSize
NoRetainedDominated ==
  \A i \in SeqRange(flt), j \in SeqRange(flt) : i # j => ~Dominates(F, CV, j, i)

\* unbounded filter: the selected point is Acceptable among ALL evaluations
BestAcceptableAll ==
  (FilterSize = 0 /\ Len(F) > 0) =>
    \A p \in Penalties, tol \in Tols :
       Acceptable(BestOfRetained(F, CV, MeritsA(p), flt, tol, IsFiniteA),
                  DOMAIN F, F, CV, MeritsA(p), tol, IsFiniteA)

\* bounded filter: the same rule over the retained points
BestAcceptableRetained ==
  Len(F) > 0 =>
    \A p \in Penalties, tol \in Tols :
       Acceptable(BestOfRetained(F, CV, MeritsA(p), flt, tol, IsFiniteA),
                  SeqRange(flt), F, CV, MeritsA(p), tol, IsFiniteA)

(* --- behaviour export for replay into the real Problem object ---------- *)
\* One line per state of maximal length: the history, and for every penalty
\* and tolerance the set of acceptable selections and the spec's own choice.
AccSet(p, tol, ids) ==
  {i \in ids : Acceptable(i, ids, F, CV, MeritsA(p), tol, IsFiniteA)}

ExportLine ==
  [F |-> F, CV |-> CV, flt |-> flt,
   sel |-> [p \in Penalties |-> [tol \in Tols |->
             [best |-> BestOfRetained(F, CV, MeritsA(p), flt, tol, IsFiniteA),
              acc  |-> AccSet(p, tol,
                        IF FilterSize = 0 THEN DOMAIN F ELSE SeqRange(flt))]]]]

Export == (Len(F) = MaxLen) => PrintT("EXPORT " \o ToJson(ExportLine))
=============================================================================
