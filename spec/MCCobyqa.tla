------------------------------ MODULE MCCobyqa ------------------------------
(* Model-checking wrapper for Cobyqa.tla (constants a cfg cannot spell).    *)
EXTENDS Cobyqa
FV3 == {0, 1, NaN}
FV2 == {0, 1}
CV2 == {0, 1}
CV3 == {0, 1, NaN}
NeverTarget == NInf
StateBound == TLCGet("level") <= 60
=============================================================================
