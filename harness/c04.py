"""C04: on well-posed reference problems the solver finds the minimiser (spec/RefProblems.tla).

TLC generates every instance from its solution with integer data and checks the optimality
certificate exactly; the harness runs minimize with default options from starting points at
distance 0.1 .. 50 and TLC decides the clauses (status 0, success, feasible, close to x*)."""
import json
import math
import multiprocessing as mp
import os
import subprocess
import time

import numpy as np

from .common import OUT, SPEC, Machinery, Verdict, run_tlc, write_cfg, write_evidence, seed, NCPU, printed_values

NAN_KEY = -1000000
DISTS = (0.1, 1.0, 5.0, 50.0)


def universe(uid):
    out = os.path.join(OUT, f"universe_ref_{uid}.json")
    cfg = os.path.join(OUT, "ref-u.cfg")
    with open(cfg, "w") as fh:
        fh.write("INIT OInit\nNEXT ONext\nCHECK_DEADLOCK FALSE\n")
    empty = os.path.join(OUT, "ref-empty.json")
    with open(empty, "w") as fh:
        fh.write("[]")
    meta = os.path.join(OUT, "tlc", f"refu-{uid}-{os.getpid()}")
    env = dict(os.environ, UNIVERSE_ID=uid, UNIVERSE_OUT=out, OUTCOME_FILE=empty)
    p = subprocess.run(["tlc", "-workers", "1", "-metadir", meta, "-noGenerateSpecTE", "-config", cfg,
                        "RefProblems.tla"], cwd=SPEC, env=env, capture_output=True, text=True, timeout=1800)
    subprocess.run(["rm", "-rf", meta])
    if '"UNIVERSE"' not in p.stdout:
        raise Machinery("RefProblems.tla: certificate or emission failed for " + uid + "\n" + p.stdout[-3000:])
    U = json.load(open(out))
    U.sort(key=lambda d: json.dumps(d, sort_keys=True))
    return U


def _dirs(n):
    d = [np.ones(n), np.array([-1.0] + [0.0] * (n - 1)), np.array([(1.0 if i % 2 == 0 else -2.0) for i in range(n)])]
    return [v / np.linalg.norm(v) for v in d]


def build(p):
    """instance -> (fun, xstar, bounds, constraints)"""
    from scipy.optimize import Bounds, LinearConstraint, NonlinearConstraint
    fam = p["fam"]
    if fam in ("unc", "bnd", "leq"):
        H = np.array(p["H"], float)
        g = np.array(p["g2"], float) / 2.0
        xs = np.array(p["xs2"], float) / 2.0

        def fun(x):
            return float(0.5 * x @ H @ x + g @ x)
        bounds = None
        cons = ()
        if fam == "bnd":
            bounds = Bounds(np.array(p["lb2"], float) / 2.0, np.array(p["ub2"], float) / 2.0)
        if fam == "leq":
            A = np.array(p["A"], float)
            b = np.array(p["b2"], float) / 2.0
            cons = [LinearConstraint(A, b, b)]
        return fun, xs, bounds, cons
    if fam == "int":
        h, t = float(p["h"]), p["t2"] / 2.0

        def fun(x):
            return float(0.5 * h * (x[0] - t) ** 2)
        bounds = Bounds([p["lb2"] / 2.0], [p["ub2"] / 2.0])
        cons = [LinearConstraint(np.array([[float(r[0])]]), -np.inf, r[1] / 2.0) for r in p["rows"]]
        return fun, np.array([p["xs4"] / 4.0]), bounds, cons
    if fam == "ball":
        g = np.array(p["g"], float)
        c = np.array(p["c2"], float) / 2.0
        r = float(p["r"])

        def fun(x):
            return float(g @ x)
        cons = [NonlinearConstraint(lambda x: float(np.sum((x - c) ** 2)), -np.inf, r * r)]
        return fun, np.array(p["xs2"], float) / 2.0, None, cons
    raise ValueError(fam)


def _run(job):
    os.environ["OPENBLAS_NUM_THREADS"] = "1"
    from .common import import_cobyqa
    cobyqa = import_cobyqa()
    jid, p, di, dk = job
    fun, xs, bounds, cons = build(p)
    x0 = xs + DISTS[dk] * _dirs(xs.size)[di]
    raised = "none"
    try:
        res = cobyqa.minimize(fun, x0, bounds=bounds, constraints=cons)
        dist = float(np.linalg.norm(res.x - xs))
        out = dict(status=int(res.status), success=bool(res.success), maxcv=float(res.maxcv), dist=dist,
                   nfev=int(res.nfev), x=[float(v) for v in res.x])
    except Exception as ex:
        raised = type(ex).__name__
        out = dict(status=-99, success=False, maxcv=float("nan"), dist=float("nan"), nfev=0, x=[])
    out.update(id=jid, raised=raised, distTol=1e-4 * (1.0 + float(np.linalg.norm(xs))),
               tol=math.sqrt(np.finfo(float).eps))
    return out


def _enc(r):
    vals = sorted(set(v for v in (r["maxcv"], r["tol"], r["dist"], r["distTol"]) if not math.isnan(v)))
    rank = {v: i for i, v in enumerate(vals)}
    k = lambda v: NAN_KEY if math.isnan(v) else rank[v]
    return dict(id=r["id"], raised=r["raised"], status=r["status"], success=r["success"],
                maxcv=k(r["maxcv"]), tol=k(r["tol"]), dist=k(r["dist"]), distTol=k(r["distTol"]))


def check(pid, tier):
    t0 = time.time()
    v = Verdict("C04")
    jobs = []
    sizes = {}
    insts = []
    for uid in ("unc", "bnd", "bnd5", "leq", "int", "ball"):
        U = universe(uid)
        sizes[uid] = len(U)
        for p in U:
            for di in range(3):
                for dk in range(len(DISTS)):
                    insts.append((p, di, dk))
    usize = len(insts)
    if tier != "thorough":
        rng = np.random.RandomState(seed() + 11)
        # stratified by family
        byfam = {}
        for i, (p, di, dk) in enumerate(insts):
            byfam.setdefault(p["fam"], []).append(i)
        pick = []
        for fam, idx in sorted(byfam.items()):
            k = min(len(idx), 160)
            pick += sorted(rng.choice(idx, size=k, replace=False).tolist())
        insts = [insts[i] for i in pick]
    jobs = [(i + 1, p, di, dk) for i, (p, di, dk) in enumerate(insts)]
    with mp.get_context("fork").Pool(NCPU) as pool:
        outs = pool.map(_run, jobs, chunksize=8)
    path = os.path.join(OUT, f"ref-outcomes-{os.getpid()}.json")
    json.dump([_enc(r) for r in outs], open(path, "w"))
    cfg = write_cfg(os.path.join(OUT, f"ref-{os.getpid()}.cfg"), spec="OSpec")
    r = run_tlc("RefProblems", cfg, env={"OUTCOME_FILE": path}, workers=1, tag=f"ref-{os.getpid()}", timeout=3600)
    os.remove(path)
    byid = {o["id"]: o for o in outs}
    from collections import Counter
    cc = Counter()
    for rid, clauses in printed_values(r["out"], "OUTCOME"):
        p, di, dk = insts[rid - 1]
        small = {k: p[k] for k in p if k not in ("H",)}
        where = json.dumps({"instance": small, "dir": di, "dist": DISTS[dk]}, sort_keys=True)
        for c in clauses:
            cc[c] += 1
            v.add(c, where, {"instance": small, "x0_direction": di, "x0_distance": DISTS[dk], "result": byid[rid]})
    fams = Counter(p["fam"] for p, _, _ in insts)
    cov = {"states": r["distinct"], "transitions": r["generated"], "traces_validated_against_impl": len(outs),
           "universe_size": usize, "universe_visited": len(insts), "exhaustive": len(insts) == usize,
           "instances_per_family": sizes, "runs_per_family": dict(fams), "failed_clauses": dict(cc),
           "mean_nfev": round(float(np.mean([o["nfev"] for o in outs])), 1),
           "samples": [{k: insts[0][0][k] for k in insts[0][0] if k != "H"}, {"x0_distance": DISTS[insts[0][2]]}]}
    rc = v.finish()
    write_evidence("C04", tier, "model_checking", cov, time.time() - t0, len(v.violations),
                   ["every instance is generated from its solution and its optimality certificate is checked by TLC in exact integer arithmetic (RefProblems.tla, ASSUME EmitOK)",
                    "'close to the minimiser' = |x - x*| <= 1e-4 (1 + |x*|), feasibility within the default feasibility_tol; the distance is computed by the harness",
                    "convergence of a floating-point iteration is observed on a finite instance set (n <= 5, cond <= 100), not proved"])
    return rc
