"""Turn an abstract descriptor of spec/Corpus.tla into a concrete call of minimize.

Everything is deterministic in the descriptor.  Problems are small (n <= 3), have data of
order one and are arranged so that minimisers sit on faces / vertices of the box, constraints
are active at the solution and second-order-correction, geometry, shift and reset steps occur.
"""
import functools
import hashlib
import json
import math
import os
import subprocess

import numpy as np

from .common import OUT, SPEC, Machinery


def enumerate_universe(uid):
    """Ask TLC for the universe `uid` of Corpus.tla (list of descriptors)."""
    out = os.path.join(OUT, f"universe_{uid}.json")
    cfg = os.path.join(OUT, "corpus.cfg")
    with open(cfg, "w") as fh:
        fh.write("INIT UInit\nNEXT UNext\nCHECK_DEADLOCK FALSE\n")
    meta = os.path.join(OUT, "tlc", f"u{uid}-{os.getpid()}")
    env = dict(os.environ, UNIVERSE_ID=uid, UNIVERSE_OUT=out)
    p = subprocess.run(["tlc", "-workers", "1", "-metadir", meta, "-noGenerateSpecTE", "-config", cfg,
                        "Corpus.tla"], cwd=SPEC, env=env, capture_output=True, text=True, timeout=600)
    subprocess.run(["rm", "-rf", meta])
    if '"UNIVERSE"' not in p.stdout:
        raise Machinery("TLC could not enumerate universe " + uid + "\n" + p.stdout[-2000:])
    with open(out) as fh:
        U = json.load(fh)
    U.sort(key=lambda d: json.dumps(d, sort_keys=True))
    return U


def did(d):
    return hashlib.sha256(json.dumps(d, sort_keys=True).encode()).hexdigest()[:10]


def subsample(U, k, seed):
    """Stratified sample: descriptors are grouped by their rare features (option profile,
    constraint kinds, fault plan, start position, callback kind, scale) and groups are visited
    round-robin, so that every profile of the universe is present in a quick run."""
    if k >= len(U):
        return list(U)
    rng = np.random.RandomState(seed % (2 ** 31))
    if not (U and isinstance(U[0], dict) and "opt" in U[0]):
        idx = sorted(rng.choice(len(U), size=k, replace=False).tolist())
        return [U[i] for i in idx]
    groups = {}
    for i, d in enumerate(U):
        key = (d["opt"], d["nl"], d["cb"][0], d["obj"], d["flt"][0], d["flt"][1], all(p == "fixed" for p in d["bp"]), "bad" in d["bp"],
               ("narrow" in d["bp"]) and not d["sc"], d["x0"] in ("onupper", "above", "mixed", "far"), d["lin"] in ("two", "mixed"), d["x0"] == "zero")
        groups.setdefault(key, []).append(i)
    keys = sorted(groups)
    for g in keys:
        rng.shuffle(groups[g])
    order = list(range(len(keys)))
    rng.shuffle(order)
    picked = []
    while len(picked) < k:
        progressed = False
        for gi in order:
            g = groups[keys[gi]]
            if g:
                picked.append(g.pop())
                progressed = True
                if len(picked) >= k:
                    break
        if not progressed:
            break
    return [U[i] for i in sorted(picked)]


# ---------------------------------------------------------------- concrete pieces
def _bounds(bp):
    lb, ub = [], []
    for i, p in enumerate(bp):
        if p == "free":
            l, u = -np.inf, np.inf
        elif p == "lower":
            l, u = -1.0 + 0.25 * i, np.inf
        elif p == "upper":
            l, u = -np.inf, 1.5 + 0.25 * i
        elif p == "wide":
            l, u = -2.0 + 0.5 * i, 3.0 - 0.25 * i
        elif p == "narrow":
            l, u = 0.25 + 0.125 * i, 0.5 + 0.125 * i
        elif p == "fixed":
            l = u = 0.75 - 0.25 * i
        elif p == "ugly":         # limits that are not dyadic: the affine map of scaling rounds
            l, u = 0.1 + 0.1 * i, 0.7 + 0.1 * i
        elif p == "bad":          # inconsistent
            l, u = 1.0, 0.5
        else:
            raise ValueError(p)
        lb.append(l)
        ub.append(u)
    return np.array(lb), np.array(ub)


def _x0(pos, lb, ub):
    n = lb.size
    x = np.zeros(n)
    for i in range(n):
        l, u = lb[i], ub[i]
        fl, fu = math.isfinite(l), math.isfinite(u)
        mid = 0.5 * (l + u) if fl and fu else (l + 0.75 if fl else (u - 0.75 if fu else 0.5 - 0.25 * i))
        if pos == "inside":
            x[i] = mid + (0.0625 if (fl and fu and u - l > 0.5) or not (fl and fu) else 0.0)
        elif pos == "onlower":
            x[i] = l if fl else mid
        elif pos == "onupper":
            x[i] = u if fu else mid
        elif pos == "below":
            x[i] = l - 1.5 if fl else mid - 1.5
        elif pos == "above":
            x[i] = u + 1.5 if fu else mid + 1.5
        elif pos == "nearlower":      # within one initial radius of the lower bound, not on it
            x[i] = l + 0.75 if fl else mid
            if fu:
                x[i] = min(x[i], u)
        elif pos == "nearupper":
            x[i] = u - 0.375 if fu else mid
            if fl:
                x[i] = max(x[i], l)
        elif pos == "zero":
            x[i] = 0.0
            if fl:
                x[i] = max(x[i], l)
            if fu:
                x[i] = min(x[i], u)
        elif pos == "far":
            x[i] = (0.5 if i == 0 else -4.0 + i)
            if fl:
                x[i] = max(x[i], l)
            if fu:
                x[i] = min(x[i], u)
        elif pos == "mixed":
            x[i] = (u if fu else mid) if i % 2 == 0 else (l if fl else mid)
        elif pos == "nearmixed":      # even coordinates close to (not on) the upper bound, odd ones central
            x[i] = (u - 0.375 if fu else mid) if i % 2 == 0 else mid
            if fl:
                x[i] = max(x[i], l)
        elif pos == "nearmixed2":     # all but the first coordinate close to the upper bound
            x[i] = mid if i == 0 else (u - 0.375 if fu else mid)
            if fl:
                x[i] = max(x[i], l)
        elif pos == "mixed2":
            x[i] = (u if fu else mid) if i == 0 else mid
    return x


def _objective(kind, n):
    t = np.array([2.0 * (-1) ** i + 0.25 * i for i in range(n)])   # targets outside typical boxes
    w = np.array([1.0 + 0.5 * i for i in range(n)])
    if kind == "none":
        return None
    if kind == "quad":
        def quad(x):
            return float(np.sum(w * (x - t) ** 2))
        return quad
    if kind == "nonsmooth":
        def nonsmooth(x):
            return float(np.sum(np.abs(x - 0.5 * t)) + 0.5 * np.max(np.abs(x)))
        return nonsmooth
    if kind == "noisy":
        def noisy(x):
            return float(np.sum(w * (x - 0.25 * t) ** 2) + 1e-3 * math.sin(1e3 * float(np.sum(x))))
        return noisy
    if kind == "inplace":        # legal but sloppy: works in place on the array it receives
        def inplace(x):
            x -= t
            x *= x
            return float(np.sum(w * x))
        return inplace
    if kind == "negsq":          # symmetric about the origin: exact merit ties in the sampling
        def negsq(x):
            return float(-np.sum(x ** 2))
        return negsq
    if kind == "negabs":
        def negabs(x):
            return float(-np.sum(np.abs(x)))
        return negabs
    if kind == "sum":
        def total(x):
            return float(np.sum(x))
        return total
    if kind == "cubic":
        def cubic(x):
            return float(x[0] ** 2 + np.sum(np.abs(x[1:]) ** 3))
        return cubic
    if kind == "rosen":
        def rosen(x):
            if x.size == 1:
                return float((x[0] - 0.5) ** 4 + 0.5 * (x[0] - 0.5) ** 2)
            return float(np.sum(10.0 * (x[1:] - x[:-1] ** 2) ** 2 + (1.0 - x[:-1]) ** 2))
        return rosen
    raise ValueError(kind)


def _linear(kind, n):
    from scipy.optimize import LinearConstraint

    ones = np.ones((1, n))
    if kind == "none":
        return []
    if kind == "ub":
        return [LinearConstraint(ones, -np.inf, 1.0)]
    if kind == "two":
        a = np.array([[1.0 if i % 2 == 0 else -0.5 for i in range(n)]])
        return [LinearConstraint(a, -1.0, 0.75)]
    if kind == "eq":
        return [LinearConstraint(ones, 0.5, 0.5)]
    if kind == "mixed":          # one object holding an equality row and an inequality row
        a2 = np.array([[1.0 if i % 2 == 0 else -0.5 for i in range(n)], [1.0] * n])
        return [LinearConstraint(a2, np.array([0.25, -np.inf]), np.array([0.25, 1.5]))]
    if kind == "contradictory":
        return [LinearConstraint(ones, -np.inf, -1.0), LinearConstraint(ones, 2.0, np.inf)]
    raise ValueError(kind)


def _sq(x):
    return float(np.sum(np.asarray(x) ** 2))


def _nonlinear(kind):
    """list of (constructor kind, fun, lb, ub)"""
    if kind == "none":
        return []
    if kind == "nlc_ub":
        return [("nlc", lambda x: _sq(x), -np.inf, 1.5)]
    if kind == "nlc_two":
        return [("nlc", lambda x: _sq(x), 0.25, 1.5)]
    if kind == "nlc_eq":
        return [("nlc", lambda x: _sq(x), 1.0, 1.0)]
    if kind == "dict_ineq":
        return [("ineq", lambda x: 1.5 - _sq(x), 0.0, np.inf)]
    if kind == "dict_eq":
        return [("eq", lambda x: _sq(x) - 1.0, 0.0, 0.0)]
    if kind == "vector":
        return [("nlc", lambda x: np.array([_sq(x), float(x[0]) + 0.5 * math.sin(float(x[-1]))]),
                 np.array([-np.inf, -0.5]), np.array([1.5, 0.75]))]
    if kind == "plane_ub":       # different violations at symmetric points
        return [("nlc", lambda x: float(x[0]) + 0.5 * float(x[-1]) + 0.25 * _sq(x), -np.inf, -0.25)]
    if kind == "sin_eq":
        return [("nlc", lambda x: float(x[-1]) - math.sin(3.0 * float(x[0])), 0.0, 0.0)]
    if kind == "circle_eq":
        return [("nlc", lambda x: _sq(x), 6.25, 6.25)]
    if kind == "circle_ge":
        return [("nlc", lambda x: _sq(x), 6.25, np.inf)]
    if kind == "two_dicts":
        return [("ineq", lambda x, r: r - _sq(x), 0.0, np.inf, (1.5,)),
                ("ineq", lambda x, a, b: float(x[0]) + a - b * _sq(x), 0.0, np.inf, (0.5, 0.25))]
    if kind == "two_objs":
        return [("nlc", lambda x: _sq(x), -np.inf, 1.5),
                ("ineq", lambda x: float(x[0]) + 0.5 - 0.25 * _sq(x), 0.0, np.inf)]
    raise ValueError(kind)


_FAULT_VAL = {"nan": float("nan"), "pinf": float("inf"), "ninf": float("-inf"), "huge": 1e300}


def _faulty(fun, kind, where, k, role, counter):
    """Wrap fun so that it returns the fault value at its k-th call / inside a region / always."""
    if fun is None or kind == "none":
        return fun
    if where in ("obj", "con") and where != role:
        return fun
    if where == "all" and kind in ("const", "zero", "collinear"):
        if role != "obj":
            return fun

        @functools.wraps(fun)
        def degenerate(x, *a):
            if kind == "const":
                return 1.25
            if kind == "zero":
                return 0.0
            return float(x[0])     # depends on one variable only: collinear data
        return degenerate
    val = _FAULT_VAL.get(kind, float("nan"))
    if where in ("split", "split2"):
        # objective undefined on one side of a hyperplane, constraints undefined on the other
        thr = 0.1 if where == "split" else 0.6

        @functools.wraps(fun)
        def splitf(x, *a):
            v = fun(x, *a)
            side = float(x[0]) > thr
            if (role == "obj" and side) or (role == "con" and not side):
                if isinstance(v, np.ndarray):
                    v = np.array(v, float)
                    v[:] = val
                    return v
                return val
            return v
        return splitf

    @functools.wraps(fun)
    def wrapped(x, *a):
        counter[role] = counter.get(role, 0) + 1
        v = fun(x, *a)
        hit = False
        if where == "region":
            hit = float(x[0]) > 0.875
        elif where == "all":
            hit = True
        else:
            hit = counter[role] == k
        if not hit:
            return v
        if isinstance(v, np.ndarray):
            v = np.array(v, float)
            v[0] = val
            return v
        return val
    return wrapped


class _CbObject:
    def __init__(self, kw, log):
        self.kw = kw
        self.log = log


class CbKw:
    def __init__(self, body):
        self.body = body

    def __call__(self, intermediate_result):
        return self.body(intermediate_result.x)


class CbPos:
    def __init__(self, body):
        self.body = body

    def __call__(self, xk):
        return self.body(xk)


def _callback(cb, state):
    kind, k = cb
    if kind == "none":
        return None
    state["calls"] = 0

    def body(x, stop_at=0, overwrite=False):
        state["calls"] += 1
        if overwrite:
            x[:] = 1e3 + state["calls"]
        if stop_at and state["calls"] == stop_at:
            raise StopIteration
        return None

    if kind in ("kw",):
        def cb_kw(intermediate_result):
            return body(intermediate_result.x)
        return cb_kw
    if kind == "pos":
        def cb_pos(xk):
            return body(xk)
        return cb_pos
    if kind == "lambda_kw":
        return lambda intermediate_result: body(intermediate_result.x)
    if kind == "lambda_pos":
        return lambda xk: body(xk)
    if kind == "object_kw":
        return CbKw(body)
    if kind == "object_pos":
        return CbPos(body)
    if kind == "partial_kw":
        def cb3(tag, intermediate_result):
            return body(intermediate_result.x)
        return functools.partial(cb3, "t")
    if kind == "partial_pos":
        def cb4(tag, xk):
            return body(xk)
        return functools.partial(cb4, "t")
    if kind == "overwrite_kw":
        def cb5(intermediate_result):
            return body(intermediate_result.x, overwrite=True)
        return cb5
    if kind == "overwrite_pos":
        def cb6(xk):
            return body(xk, overwrite=True)
        return cb6
    if kind == "stop":
        def cb7(intermediate_result):
            return body(intermediate_result.x, stop_at=k)
        return cb7
    if kind == "stop_pos":
        def cb8(xk):
            return body(xk, stop_at=k)
        return cb8
    if kind == "stop_overwrite":
        def cb9(xk):
            return body(xk, stop_at=k, overwrite=True)
        return cb9
    raise ValueError(kind)


def _options(opt, nfree, sc, ref=None):
    o = {}
    npt = 2 * nfree + 1
    if opt == "default":
        pass
    elif opt == "default40":
        o["maxfev"] = 40
    elif opt == "fev1":
        o["maxfev"] = 1
    elif opt == "fev_nptm1":
        o["maxfev"] = max(npt - 1, 1)
    elif opt == "fev_npt":
        o["maxfev"] = npt
    elif opt == "fev_nptp1":
        o["maxfev"] = npt + 1
    elif opt == "fev_nptp2":
        o["maxfev"] = npt + 2
    elif opt == "fev_3npt":
        o["maxfev"] = 3 * npt
    elif opt.startswith("fev_p"):
        o["maxfev"] = npt + int(opt[5:])
    elif opt == "iter1":
        o["maxiter"] = 1
    elif opt == "iter2":
        o["maxiter"] = 2
    elif opt == "iter5":
        o["maxiter"] = 5
    elif opt in ("target", "target2", "target3"):
        o["target"] = {"target": 6.0, "target2": 2.5, "target3": 0.75}[opt]
    elif opt == "rho_big":
        o["radius_init"] = 0.5
        o["radius_final"] = 0.2
    elif opt == "rho_eq":
        o["radius_init"] = 0.0625
        o["radius_final"] = 0.0625
    elif opt == "rho0":
        o["radius_final"] = 0.0
        o["maxfev"] = 80
    elif opt == "rho_tiny":
        o["radius_init"] = 1e-8
        o["radius_final"] = 1e-12
    elif opt == "rho_huge":
        o["radius_init"] = 1e5
        o["radius_final"] = 1e-2
        o["maxfev"] = 150
    elif opt.startswith("k_"):
        pass
    elif opt == "target_huge":
        o["target"] = 1e300
    elif opt == "tol0":
        o["feasibility_tol"] = 0.0
    elif opt == "tol0_target":
        o["feasibility_tol"] = 0.0
        o["target"] = 6.0
    elif opt == "tol0_target2":
        o["feasibility_tol"] = 0.0
        o["target"] = 12.0
    elif opt == "disp":
        o["disp"] = True
    elif opt == "npt_2np2":
        o["nb_points"] = 2 * nfree + 2
    elif opt == "npt_3np1":
        o["nb_points"] = min(3 * nfree + 1, (nfree + 1) * (nfree + 2) // 2)
    elif opt == "npt_3np2":
        o["nb_points"] = min(3 * nfree + 2, (nfree + 1) * (nfree + 2) // 2)
    elif opt == "npt_min":
        o["nb_points"] = nfree + 1
    elif opt == "npt_max":
        o["nb_points"] = (nfree + 1) * (nfree + 2) // 2
    elif opt == "hist1":
        o["history_size"] = 1
    elif opt == "hist2":
        o["history_size"] = 2
    elif opt == "filter1":
        o["filter_size"] = 1
    elif opt == "filter2":
        o["filter_size"] = 2
    else:
        raise ValueError(opt)
    if opt.startswith("hist") or opt in ("default", "fev_3npt", "fev_nptp2", "iter5"):
        o["store_history"] = True
    if sc:
        o["scale"] = True
    o.setdefault("maxfev", 120 * max(nfree, 1))
    return o


def _place_trigger(d, fun, x0, bounds, cons, nfree):
    """Reference run (no callback stop): read the site of every evaluation off its trace and
    derive where to put the stopping request (C09: the trigger at every site)."""
    from . import recorder
    cbk = tuple(d["cb"])
    optk = d["opt"]
    ref_opt = {"budget_target": "target", "budget_target2": "target2"}.get(optk, "default")
    o = _options(ref_opt, nfree, bool(d["sc"]))
    o.pop("store_history", None)
    cons_arg = cons
    t = recorder.record_call(fun, x0, bounds=bounds, constraints=cons_arg, options=o, timeout=60.0)
    sites = [e["site"] for e in t["ev"] if e["e"] == "EE" and e["completed"]]
    vals = [(float(e["f"]), float(e["cv"])) for e in t["ev"] if e["e"] == "EE" and e["completed"]]
    out = {}
    want = {"stop_soc": "SOC", "stop_geo": "GEO", "stop_tr": "TR"}.get(cbk[0])
    if want:
        idx = [i + 1 for i, s in enumerate(sites) if s == want]
        if idx:
            out["stop_at"] = idx[min(cbk[1], len(idx) - 1)]
    if cbk[0] == "stop_initlast":
        idx = [i + 1 for i, s in enumerate(sites) if s == "INIT"]
        if idx:
            out["stop_at"] = idx[-1]
    wt = {"target_soc": "SOC", "target_geo": "GEO", "target_tr": "TR"}.get(optk)
    if wt:
        tol = math.sqrt(np.finfo(float).eps)
        idx = [i for i, s in enumerate(sites) if s == wt and vals[i][1] <= tol and math.isfinite(vals[i][0])]
        if idx:
            out["target"] = vals[idx[0]][0]
    if optk in ("budget_target", "budget_target2"):
        if t["exc"] is None and t["result"] is not None and int(t["result"].status) == 1:
            out["maxfev"] = int(t["result"].nfev)
    return out


CONSTANT_PROFILES = {
    "k_irf15": {"increase_radius_factor": 1.5},
    "k_irf11": {"increase_radius_factor": 1.125},
    "k_drt12": {"decrease_radius_threshold": 1.25},
    "k_drf25": {"decrease_radius_factor": 0.25},
    "k_drf75": {"decrease_radius_factor": 0.75, "increase_radius_threshold": 1.25},
    "k_res": {"decrease_resolution_factor": 0.5, "large_resolution_threshold": 2.0,
              "moderate_resolution_threshold": 2.0},
    "k_res2": {"decrease_resolution_factor": 0.125, "large_resolution_threshold": 4.0},
    "k_ratio": {"low_ratio": 0.3, "high_ratio": 0.31, "very_low_ratio": 0.2},
    "k_pen": {"penalty_increase_threshold": 1.0, "penalty_increase_factor": 1.125},
    "k_misc": {"short_step_threshold": 0.9, "low_radius_factor": 0.5, "byrd_omojokun_factor": 0.5,
               "large_shift_factor": 0.0, "resolution_factor": 1.25, "improve_tcg": False},
}


def fresh_callback(d):
    """a new callback object for descriptor d (callbacks carry a call counter)"""
    cbk = tuple(d["cb"])
    return _callback(cbk, {})


def build(d):
    """descriptor -> dict(fun, x0, bounds, constraints, callback, options, constants, meta)"""
    from scipy.optimize import Bounds, NonlinearConstraint

    n = d["n"]
    bp = list(d["bp"])
    lb, ub = _bounds(bp)
    x0 = _x0(d["x0"], lb, ub)
    consistent = bool(np.all(lb <= ub))
    nfree = int(sum(1 for p in bp if p != "fixed"))
    fk, fw, fi = d["flt"]
    counter = {}
    fun = _faulty(_objective(d["obj"], n), fk, fw, fi, "obj", counter)
    cons = list(_linear(d["lin"], n))
    for spec in _nonlinear(d["nl"]):
        ck, f, l, u = spec[:4]
        f = _faulty(f, fk, fw, fi, "con", counter)
        if ck == "nlc":
            cons.append(NonlinearConstraint(f, l, u))
        elif len(spec) > 4:
            cons.append({"type": ck, "fun": f, "args": spec[4]})
        else:
            cons.append({"type": ck, "fun": f})
    if d["bf"] == "Bounds":
        bounds = Bounds(lb, ub)
    elif d["bf"] == "Bounds_nan":     # "no bound" written as NaN, on caller-owned float arrays
        bounds = Bounds(np.where(np.isfinite(lb), lb, np.nan), np.where(np.isfinite(ub), ub, np.nan))
    elif d["bf"] == "array_nan":
        bounds = np.column_stack([np.where(np.isfinite(lb), lb, np.nan), np.where(np.isfinite(ub), ub, np.nan)])
    else:
        bounds = np.column_stack([lb, ub])
    if k_maxfev := {"k_irf15": 40, "k_drf25": 40, "k_misc": 40, "k_res": 40}.get(d["opt"]):
        pass
    if all(p == "free" for p in bp) and d["bf"] == "Bounds" and d["x0"] == "inside" and n == 1:
        bounds = None
    state = {}
    cbk = tuple(d["cb"])
    optk = d["opt"]
    derived = {}
    if cbk[0] in ("stop_soc", "stop_geo", "stop_tr", "stop_initlast") or \
            optk in ("target_soc", "target_geo", "target_tr", "budget_target", "budget_target2", "fev_eq_stop"):
        derived = _place_trigger(d, fun, x0, bounds, cons, nfree)
        if cbk[0].startswith("stop_") and cbk[0] != "stop_pos" and cbk[0] != "stop_overwrite":
            cbk = ("stop", derived.get("stop_at", 3))
        if optk == "fev_eq_stop":
            derived["maxfev"] = cbk[1] if cbk[0] in ("stop", "stop_pos") and cbk[1] > 0 else 3
    cb = _callback(cbk, state)
    base_opt = {"target_soc": "default", "target_geo": "default", "target_tr": "default",
                "budget_target": "target", "budget_target2": "target2", "fev_eq_stop": "default"}.get(optk, optk)
    opts = _options(base_opt, nfree, bool(d["sc"]))
    if "target" in derived:
        opts["target"] = derived["target"]
    if "maxfev" in derived:
        opts["maxfev"] = derived["maxfev"]
    # scaling needs finite bounds; narrow boxes need a smaller initial radius is NOT set: the
    # solver must reduce it itself
    if len(cons) == 1 and d["lin"] != "none" and d["nl"] == "none":
        cons_arg = cons[0]
    else:
        cons_arg = cons
    return dict(fun=fun, x0=x0, bounds=bounds, constraints=cons_arg, callback=cb, options=opts,
                constants=dict(CONSTANT_PROFILES.get(optk, {})),
                meta={"did": did(d), "valid": True, "consistent": consistent, "d": d})
