"""Projection of recorded traces to scripts and validation of pairs with spec/Pair.tla."""
import json
import math
import os

import numpy as np

from .common import OUT, run_tlc, write_cfg, printed_values

NAN_KEY = -1000000
EPS = np.finfo(float).eps


def project(trace):
    """trace (recorder output, floats as K) -> dict(steps=[{x,f,cv}], res={...}) with floats"""
    steps = []
    for e in trace["ev"]:
        if e["e"] == "EE" and e["completed"]:
            steps.append({"x": [float(v) for v in e["xu"]], "f": float(e["f"]), "cv": float(e["cv"])})
    last = trace["ev"][-1] if trace["ev"] else {"e": "Raise", "type": "none"}
    if last["e"] == "Res":
        res = {"raised": "none", "status": last["status"], "success": last["success"], "nfev": last["nfev"],
               "nit": last["nit"], "x": [float(v) for v in last["x"]], "f": float(last["f"]), "cv": float(last["cv"]),
               "hf": [float(v) for v in last.get("hf", [])], "hc": [float(v) for v in last.get("hc", [])]}
    else:
        res = {"raised": last.get("type", "?"), "status": -99, "success": False, "nfev": -1, "nit": -1,
               "x": [], "f": float("nan"), "cv": float("nan"), "hf": [], "hc": []}
    return {"steps": steps, "res": res}


def _encode_pair(pid, a, b, exact, prop, pure, mode, band=0.0):
    vals = set()

    def add(v):
        if isinstance(v, list):
            for t in v:
                add(t)
        elif isinstance(v, float) and not math.isnan(v):
            vals.add(v + 0.0)
    A = json.loads(json.dumps(a))
    B = json.loads(json.dumps(b))
    if not exact:
        for s in A["steps"] + [A["res"]]:
            w = [band * max(1.0, abs(t)) for t in s["x"]]
            s["xlo"] = [t - d for t, d in zip(s["x"], w)]
            s["xhi"] = [t + d for t, d in zip(s["x"], w)]
            if "cv" in s and "nfev" not in s:
                fw = band * max(1.0, abs(s["f"])) if not math.isnan(s["f"]) else 0.0
                s["flo"], s["fhi"] = s["f"] - fw, s["f"] + fw
    for side in (A, B):
        for s in side["steps"] + [side["res"]]:
            for k in ("x", "xlo", "xhi", "f", "cv", "flo", "fhi", "hf", "hc"):
                if k in s:
                    add(s[k])
    rank = {v: i for i, v in enumerate(sorted(vals))}

    def key(v):
        if isinstance(v, list):
            return [key(t) for t in v]
        return NAN_KEY if math.isnan(v) else rank[v + 0.0]
    for side in (A, B):
        for s in side["steps"] + [side["res"]]:
            for k in ("x", "xlo", "xhi", "f", "cv", "flo", "fhi", "hf", "hc"):
                if k in s:
                    s[k] = key(s[k])
    return {"id": pid, "mode": mode, "exact": bool(exact), "prop": prop, "pure": bool(pure), "a": A, "b": B}


def validate(pairs, tag):
    """pairs: list of dict(a, b (projections), exact, prop, pure, mode[, band]).
    Returns {pair index (0-based): (clauses, first differing step)} and TLC stats."""
    enc = [_encode_pair(i + 1, p["a"], p["b"], p.get("exact", True), p["prop"], p.get("pure", True),
                        p.get("mode", ""), p.get("band", 0.0)) for i, p in enumerate(pairs)]
    path = os.path.join(OUT, f"pairs-{tag}.json")
    json.dump(enc, open(path, "w"))
    cfg = write_cfg(os.path.join(OUT, f"pairs-{tag}.cfg"), spec="PSpec")
    r = run_tlc("Pair", cfg, env={"PAIR_FILE": path}, workers=1, tag=f"pairs-{tag}", timeout=3600)
    os.remove(path)
    out = {}
    for v in printed_values(r["out"], "PAIR"):
        out[v[0] - 1] = (v[1], v[2])
    return out, {"states": r["distinct"], "transitions": r["generated"]}
