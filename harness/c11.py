"""C11: minimize is deterministic, leaves its arguments untouched and is re-entrant.

D  Reentrancy.tla: non-interference over all interleavings of 2-3 runs; the shared-cache and
   shared-constants deviations must be rejected.
T  schedules: every call of a group is first run alone (the script), then repeated in another
   order with short-lived callbacks of alternating signatures, nested (an objective that calls
   minimize) and run concurrently on 2..16 threads sharing the same bounds / constraint objects.
   Pair.tla requires every run to reproduce its script bit for bit (evaluation sequence and
   result) and the arguments (x0, bounds, constraint arrays, args, options) to be unchanged.
"""
import gc
import json
import multiprocessing as mp
import os
import sys
import threading
import time

import numpy as np

from . import corpus, pairs
from .common import OUT, Machinery, Verdict, run_tlc, write_cfg, write_evidence, seed, NCPU


def design(tier):
    states = 0
    for n, steps in ((2, 3), (2, 4), (3, 3)) if tier == "quick" else ((2, 4), (3, 3), (3, 4)):
        cfg = write_cfg(os.path.join(OUT, "c11-d.cfg"), spec="RSpec",
                        constants=dict(N=n, Steps=steps, SharedCache=False, SharedConstants=False),
                        invariants=["NonInterference"], properties=["AllFinish"])
        r = run_tlc("Reentrancy", cfg, tag="c11-d", timeout=1800)
        if r["violated"]:
            raise Machinery("Reentrancy.tla violates " + str(r["violated"]))
        states += r["distinct"]
    rejected = []
    for name, over in (("module-level interpolation-system cache", dict(SharedCache=True, SharedConstants=False)),
                       ("class-level constants dictionary", dict(SharedCache=False, SharedConstants=True))):
        cfg = write_cfg(os.path.join(OUT, "c11-dev.cfg"), spec="RSpec", constants=dict(N=2, Steps=3, **over),
                        invariants=["NonInterference"])
        r = run_tlc("Reentrancy", cfg, tag="c11-dev")
        if r["violated"] != "NonInterference":
            raise Machinery(f"deviation '{name}' is not rejected")
        rejected.append(name)
    return {"states": states, "deviations_rejected": rejected}


def _rec(p, cb, mode):
    from . import recorder
    t = recorder.record_call(p["fun"], p["x0"], bounds=p["bounds"], constraints=p["constraints"], callback=cb,
                             options=p["options"], constants=p.get("constants"), use_alarm=False,
                             meta=dict(p["meta"], mode=mode))
    return {"hdr": t["hdr"], "ev": t["ev"]}


def _group(args):
    os.environ["OPENBLAS_NUM_THREADS"] = "1"
    gi, descs, nthreads = args
    from .common import import_cobyqa
    import_cobyqa()
    import cobyqa
    built = [corpus.build(d) for d in descs]
    for p in built:
        p["options"].setdefault("maxfev", 40)
        p["options"]["maxfev"] = min(p["options"]["maxfev"], 40)
    m = len(built)
    out = []      # (mode, ref index, trace)
    refs = []
    for j, p in enumerate(built):
        refs.append(_rec(p, corpus.fresh_callback(descs[j]), "ref"))
    # repeated, other order, callbacks created and dropped in between (address reuse)
    for j in reversed(range(m)):
        for kind in (("kw", 0), ("pos", 0)):
            junk = corpus._callback(kind, {})
            try:
                cobyqa.minimize(lambda x: float(x @ x), [0.5, 0.25], callback=junk, options={"maxfev": 4})
            except Exception:
                pass
            del junk
            gc.collect()
        out.append(("repeat", j, _rec(built[j], corpus.fresh_callback(descs[j]), "repeat")))
    # nested: the objective of the outer call runs the inner call at its 4th evaluation
    for j in range(m):
        inner_j = (j + 1) % m
        holder = {}
        p = dict(built[j])
        f0 = p["fun"]
        count = [0]

        def nested(x, f0=f0, count=count, holder=holder, inner_j=inner_j):
            count[0] += 1
            if count[0] == 4:
                holder["t"] = _rec(built[inner_j], corpus.fresh_callback(descs[inner_j]), "nested-inner")
            return f0(x)
        nested.__name__ = getattr(f0, "__name__", "fun")
        p["fun"] = nested
        out.append(("nested-outer", j, _rec(p, corpus.fresh_callback(descs[j]), "nested-outer")))
        if "t" in holder:
            out.append(("nested-inner", inner_j, holder["t"]))
    # threads: K calls at once on the SAME bounds / constraints objects
    old = sys.getswitchinterval()
    sys.setswitchinterval(1e-5 if gi % 2 == 0 else 1e-4)
    try:
        for K in nthreads:
            res = [None] * K
            barrier = threading.Barrier(K)

            def work(i):
                j = i % m
                cb = corpus.fresh_callback(descs[j])
                barrier.wait()
                try:
                    res[i] = (j, _rec(built[j], cb, f"threads-{K}"))
                except BaseException as ex:  # noqa
                    res[i] = (j, {"hdr": refs[j]["hdr"], "ev": [{"e": "Raise", "type": type(ex).__name__}]})
            th = [threading.Thread(target=work, args=(i,)) for i in range(K)]
            for t in th:
                t.start()
            for t in th:
                t.join()
            for r in res:
                out.append((f"threads-{K}", r[0], r[1]))
    finally:
        sys.setswitchinterval(old)
    prs = []
    for j, r in enumerate(refs):
        prs.append(dict(a=pairs.project(r), b=pairs.project(r), exact=True, prop="C11", pure=r["hdr"]["pure"],
                        mode="ref", did=r["hdr"]["meta"]["did"], impure=r["hdr"].get("impure", [])))
    for mode, j, t in out:
        prs.append(dict(a=pairs.project(refs[j]), b=pairs.project(t), exact=True, prop="C11",
                        pure=t["hdr"]["pure"], mode=mode, did=refs[j]["hdr"]["meta"]["did"],
                        impure=t["hdr"].get("impure", [])))
    return prs


def check(pid, tier):
    t0 = time.time()
    v = Verdict("C11")
    d = design(tier)
    U = corpus.enumerate_universe("C11")
    ng = 12 if tier == "quick" else 120
    S = corpus.subsample(U, 4 * ng, seed())
    groups = [(g, S[4 * g:4 * g + 4], ((2, 4, 16) if tier == "quick" else (2, 3, 4, 8, 16))) for g in range(ng)]
    groups = [g for g in groups if len(g[1]) == 4]
    with mp.get_context("fork").Pool(min(NCPU // 2, len(groups))) as pool:
        allp = []
        for prs in pool.imap_unordered(_group, groups):
            allp += prs
    fails, stats = pairs.validate(allp, f"c11-{os.getpid()}")
    from collections import Counter
    modes = Counter(p["mode"] for p in allp)
    cc = Counter()
    for i, (clauses, first) in fails.items():
        p = allp[i]
        for c in clauses:
            cc[c + "@" + p["mode"].split("-")[0]] += 1
            v.add(c, p["did"] + ":" + p["mode"], {"mode": p["mode"], "first_differing_evaluation": first,
                                                     "modified_arguments": p["impure"],
                                                     "script_result": p["a"]["res"], "run_result": p["b"]["res"]})
    cov = {"states": d["states"] + stats["states"], "transitions": d["states"] + stats["transitions"],
           "traces_validated_against_impl": len(allp), "groups": len(groups), "runs_per_mode": dict(modes),
           "universe_size": len(U), "universe_visited": len(S), "exhaustive": False,
           "design": d, "failed_clauses": dict(cc),
           "samples": [{"descriptor": S[0], "evaluations": len(allp[0]["a"]["steps"])}]}
    rc = v.finish()
    write_evidence("C11", tier, "model_checking", cov, time.time() - t0, len(v.violations),
                   ["Python threads under the GIL give coarse interleavings (switch interval lowered to 1e-5 s); the fine interleavings are explored on the design (Reentrancy.tla)",
                    "bit-identity is decided by TLC on order keys shared by the script and the run (Pair.tla)",
                    "argument purity is a structural digest of x0, bounds, constraint arrays, args and options before and after the call"])
    return rc
