"""Record corpora of real runs in parallel and validate them against TraceCobyqa.tla."""
import multiprocessing as mp
import os
import time

from . import corpus, tracecheck
from .common import NCPU


def _one(d):
    os.environ["OPENBLAS_NUM_THREADS"] = "1"
    from . import recorder
    want = d.pop("__want", ())
    timeout = d.pop("__timeout", 60.0)
    p = corpus.build(d)
    try:
        t = recorder.record_call(p["fun"], p["x0"], bounds=p["bounds"], constraints=p["constraints"],
                                 callback=p["callback"], options=p["options"], constants=p.get("constants"), want=want,
                                 timeout=timeout, meta=p["meta"])
        if t.get("exc") == "Hang":
            # runs are deterministic: a run that really never returns does so again.  Rebuilt from the
            # descriptor (fresh callbacks / fault counters) and repeated with three times the CPU budget;
            # the repetition is the execution that is validated.
            p = corpus.build(d)
            t = recorder.record_call(p["fun"], p["x0"], bounds=p["bounds"], constraints=p["constraints"],
                                     callback=p["callback"], options=p["options"], constants=p.get("constants"),
                                     want=want, timeout=3 * timeout, meta=p["meta"])
    except BaseException as ex:  # recorder failure: machinery, reported by the caller
        return {"hdr": None, "ev": [], "err": f"{type(ex).__name__}: {ex}", "did": p["meta"]["did"]}
    return {"hdr": t["hdr"], "ev": t["ev"], "sub": t.get("sub", [])}


def record(descs, want=(), timeout=60.0, procs=None):
    items = []
    for d in descs:
        dd = dict(d)
        dd["__want"] = tuple(want)
        dd["__timeout"] = timeout
        items.append(dd)
    t0 = time.time()
    if len(items) <= 4:
        out = [_one(i) for i in items]
    else:
        ctx = mp.get_context("fork")
        with ctx.Pool(procs or NCPU) as pool:
            out = pool.map(_one, items, chunksize=max(1, len(items) // (8 * (procs or NCPU))))
    return out, time.time() - t0


def validate(traces, tag, chunk=1500):
    per = []
    stats = {"states": 0, "transitions": 0, "wall": 0.0}
    for c in range(0, len(traces), chunk):
        p, s, _ = tracecheck.validate(traces[c:c + chunk], f"{tag}-{c // chunk}")
        per += p
        for k in ("states", "transitions", "wall"):
            stats[k] += s[k]
        try:
            os.remove(s["file"])
        except OSError:
            pass
    return per, stats
