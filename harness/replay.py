"""Re-run one recorded violation: bin/check Cxx --replay out/replays/Cxx-n.json"""
import json
import sys


def run(pid, path):
    r = json.load(open(path))
    det = r.get("detail") or {}
    d = det.get("descriptor")
    if d is None or "n" not in d:
        print(json.dumps(r, indent=1)[:4000])
        print("(this replay file has no corpus descriptor: see the 'detail' field for the input)")
        return 0
    from . import corpus, recorder, tracecheck
    p = corpus.build(d)
    t = recorder.record_call(p["fun"], p["x0"], bounds=p["bounds"], constraints=p["constraints"],
                             callback=p["callback"], options=p["options"], constants=p.get("constants"), want=("tr", "interp"),
                             meta=p["meta"])
    per, stats, enc = tracecheck.validate([{"hdr": t["hdr"], "ev": t["ev"]}], f"replay-{pid}")
    mine = sorted(set((c, l) for c, l in per[0]["viol"] if c.startswith(pid)))
    print(f"descriptor: {json.dumps(d)}")
    print(f"result: {t['exc'] or dict(t['result'])}")
    for c, l in mine[:10]:
        e = t["ev"][l - 1]
        print(f"clause {c} at event {l}: " + json.dumps({k: (list(map(float, v)) if isinstance(v, list) and v and isinstance(v[0], float) else (float(v) if isinstance(v, float) else v)) for k, v in e.items()}, default=str)[:1500])
    print("REPRODUCED" if any(c == r.get("clause") for c, _ in mine) else "NOT REPRODUCED")
    return 1 if mine else 0
