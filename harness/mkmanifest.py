"""Regenerate MANIFEST.json from the table below (python3 -m harness.mkmanifest)."""
import json
import os

VERIF = os.path.dirname(os.path.dirname(os.path.abspath(__file__)))
props = [json.loads(l) for l in open(os.path.join(VERIF, "properties.jsonl"))]

T_NOTE = ("Trusted: the recorder (spies + wrappers, harness/recorder.py), order-key encoding, the harness "
          "arithmetic listed in DESIGN 2.4 (true violation, merit, rounding bands), TLC. Bounded by the finite "
          "universe of spec/Corpus.tla (n <= 3).")

CLAIMS = {
 "C01": ("trace validation: every recorded run of the bound-pattern universe against TraceCobyqa.tla (clauses C01.*: exact inclusion at every user call / callback / return, trial points inside the widened internal box at every site)", "5/C01"),
 "C02": ("trace validation: returned x is an evaluated point, fun equals its logged value, maxcv lies in the rounding band of the true violation computed from the user's statement; C02's own cross product enumerated by TLC", "5/C02"),
 "C03": ("exhaustive model check of Filter.tla (all histories of (f,cv) pairs over an abstract domain incl. NaN/+-inf, length <= 5, penalties, tolerances, filter sizes) + replay of every exported history into a real Problem (best_eval must select a member of the Acceptable set computed by TLC) + trace validation of real runs (C03.best)", "5/C03"),
 "C04": ("RefProblems.tla generates the five reference families from their solution with integer data and TLC checks every optimality certificate in exact arithmetic; minimize is run with default options from starts at distance 0.1..50 and TLC decides status 0 / success / feasibility / distance to the exact minimiser", "5/C04"),
 "C05": ("design model check of the budget invariants + trace validation (nfev = number of evaluations, <= maxfev, nit <= maxiter, histories = last min(nfev,history_size) logged values)", "5/C05"),
 "C06": ("design model check of the call discipline + trace validation of every user call (inside an evaluation window, same user-space point, once per evaluation, omission rule)", "5/C06"),
 "C07": ("design model check of status legality on every exit path + trace validation of code/message/success against what the trace shows", "5/C07"),
 "C08": ("design liveness/exception mapping + trace validation over enumerated fault plans (NaN/inf/huge at index k or region, degenerate data, all-fixed/inconsistent bounds, callbacks): returns, barrier, success=>finite", "5/C08"),
 "C09": ("design model check of stop immediacy + trace validation with triggers placed at every site", "5/C09"),
 "C10": ("Presolve.tla: the presolved (fixed variables eliminated, scaled) linear system computed exactly by TLC on integer data, residual identity checked by TLC, compared exactly with the Problem object minimize builds; pairs of restated runs (Bounds/array, dict/NonlinearConstraint, NaN/inf limits, split/merged/regrouped constraints, hand-eliminated fixed variables, scale=True vs explicit rescaling) validated by Pair.tla", "5/C10"),
 "C11": ("Reentrancy.tla: non-interference over all interleavings of 2-3 runs (shared-cache / shared-constants deviations rejected); schedules of real calls (alone, repeated with short-lived callbacks, nested, 2..16 threads on shared bounds / constraint objects) validated pairwise against their script by Pair.tla: bit-identical evaluation sequences and results, arguments unchanged", "5/C11"),
 "C12": ("InterpBook.tla (slot / recorded-value bookkeeping under Replace / ReplaceNear / Shift / Reset) model-checked by simulation and every behaviour replayed into a real Models object (n = 1..5, all admissible point numbers, 0..3 constraint models): slot tables equal, every model reproduces every recorded value; trace validation of the interpolation events of real runs", "5/C12"),
 "C13": ("exact oracle: TLC computes (Interp.tla, integer / rational arithmetic) the least-Frobenius-norm models of every poised lattice set and the symmetric-Broyden recursion over random update histories (incl. zero-residual replacements); every view of the real Quadratic / Models (value, gradient, Hessian, Hessian product, curvature, before and after a base shift, at two length scales) is compared within c*eps*cond; self-consistency clauses on real runs", "5/C13"),
 "C14": ("exact oracle: for every poised subset of the lattice, every candidate point and index, Models.determinants (one index and all indices) is compared with the ratio of two exact determinants computed by TLC (Bareiss), at three power-of-two scales with a reused Models object", "5/C14"),
 "C15": ("Subproblem.tla enumerates the degeneracy classes (gradient signs, bound patterns incl. active at the origin, Hessian kinds, constraint rows incl. duplicated / parallel / rank-deficient, radii, power-of-two scales, improve_tcg) with small-integer instances; the five real solvers are called on each and TLC decides the admissibility clauses on order keys (exact inclusion in the bounds, radius, inequalities kept, null space of the equalities)", "5/C15"),
 "C16": ("same universe; TLC computes on integer data the sign-pattern predicate Improvable and the exact projected-gradient Cauchy decrease (rational) and decides: no step worse than not moving, Cauchy decrease attained by the bound-constrained tangential step, strict improvement of the Cauchy geometry step when Improvable", "5/C16"),
 "C17": ("Constraints.tla: the theorem 'largest internal violation = largest excursion from [lb,ub]' checked by TLC on the limit/value lattice; the expected internal form (counts of inequalities / equalities, violations) of every constraint list of the universe is computed by TLC and replayed through minimize and the Problem object it builds", "5/C17"),
 "C18": ("TrustRegion.tla model-checked exhaustively on a dyadic lattice (constants over the boundary lattice of their domains); every exported transition replayed exactly into a real TrustRegion; trace validation of every iteration of real runs (order, monotonicity, bound, penalty, centre = least merit, ties, replaced slot)", "5/C18"),
 "C19": ("the documented domains / coupling relations / defaults transcribed into Options.tla; TLC enumerates the universe of supplied-subset x boundary-lattice cells (singles, coupled pairs, all ordered pairs), minimize is called for each cell and TLC decides from order keys whether the call had to raise and whether the completed settings satisfy relations and defaults", "5/C19"),
 "C20": ("design model check + trace validation: one callback per evaluation, convention by signature, argument Acceptable among evaluations so far and equal to what would be returned, stop semantics", "5/C20"),
}

ENGINE = {"C01": "tlc-trace", "C02": "tlc-trace", "C05": "tlc-trace", "C06": "tlc-trace", "C07": "tlc-trace",
          "C08": "tlc-trace", "C09": "tlc-trace", "C20": "tlc-trace", "C03": "tlc-design+replay", "C18": "tlc-design+replay",
          "C11": "tlc-design+replay", "C12": "tlc-design+replay", "C13": "tlc-oracle", "C14": "tlc-oracle",
          "C15": "tlc-oracle", "C16": "tlc-oracle", "C04": "tlc-oracle", "C17": "tlc-oracle", "C19": "tlc-oracle",
          "C10": "tlc-oracle"}
NOTES = {
 "tlc-trace": T_NOTE,
 "tlc-design+replay": "Trusted: TLC (and Apalache for the unbounded invariant of C18); the replayer that drives the real objects through the exported behaviours and compares projected state; the recorder for the trace part. Bounded by the constants of the model-checking configurations (stated in the evidence).",
 "tlc-oracle": "Trusted: TLC's integer / rational evaluation of the specification module that carries the expected result; the harness that instantiates instances, calls the real code and measures floats (norms, residuals, distances) before handing them back as order keys; tolerances stated in the evidence. Bounded by the finite universes of the module.",
}
checks = []
for pid, (text, ref) in sorted(CLAIMS.items()):
    eng = ENGINE[pid]
    checks.append({
        "property_id": pid,
        "quick_cmd": f"bin/check {pid} --tier quick",
        "thorough_cmd": f"bin/check {pid} --tier thorough",
        "evidence_file": f"/verif/evidence/{pid}.json",
        "replay_cmd_template": f"bin/check {pid} --replay {{path}}",
        "engine": eng,
        "level_claimed": {"category": "model_checking", "text": text, "design_ref": ref},
        "level_note": NOTES[eng],
        "technique": "TLA+ specification checked with TLC; " + {
            "tlc-trace": "design model + traces recorded from the real code validated against the trace specification (monitor style)",
            "tlc-design+replay": "exhaustive design model + TLC-generated behaviours replayed into the real objects + trace validation",
            "tlc-oracle": "TLC-enumerated universe with TLC-computed exact expected results; observed outcomes validated by TLC on order keys"}[eng],
    })

na = [{"property_id": p["id"], "reason": "check not built yet (build in progress, see DESIGN.md section 5)"}
      for p in props if p["id"] not in CLAIMS]

m = {
 "version": 1,
 "setup_cmd": "cd /verif && sh bin/setup",
 "hooks": {"guard": "COBYQA_VERIF",
           "enable": "no guarded code in /repo: the recorder wraps cobyqa from the harness process (harness/recorder.py); checks import cobyqa from /repo's working tree (asserted via cobyqa.__file__)",
           "baseline_off_cmd": "cd /repo && /venv/bin/python -m pytest -ra -q -p no:cacheprovider --timeout=900 --continue-on-collection-errors",
           "source_commits": [], "add_only": True},
 "engines": [
   {"name": "tlc-trace", "path": "/verif/spec/TraceCobyqa.tla", "serves_properties": sorted(p for p in CLAIMS if ENGINE[p] == "tlc-trace") + ["C03", "C12", "C13", "C14", "C18"],
    "kind_free_text": "TLA+ trace specification (monitor style) over the clauses of CobyqaCore.tla; TLC batch validation of runs recorded by harness/recorder.py; design model Cobyqa.tla generates the same events"},
   {"name": "tlc-design+replay", "path": "/verif/spec", "serves_properties": sorted(p for p in CLAIMS if ENGINE[p] == "tlc-design+replay"),
    "kind_free_text": "Filter.tla, TrustRegion.tla (+ apalache/TrustRegionInd.tla), Reentrancy.tla / Pair.tla, InterpBook.tla: exhaustive or simulated model checking, behaviours exported as JSON and replayed into Problem / TrustRegion / Models / minimize"},
   {"name": "tlc-oracle", "path": "/verif/spec", "serves_properties": sorted(p for p in CLAIMS if ENGINE[p] == "tlc-oracle"),
    "kind_free_text": "Interp.tla, Subproblem.tla, RefProblems.tla, Constraints.tla, Presolve.tla, Options.tla: universes and exact expected results computed by TLC (Bareiss, rationals, certificates), outcomes of the real code validated by TLC"},
 ],
 "checks": checks,
 "notes": "See DESIGN.md. Exit codes: 0 held, 1 violation (VIOLATION line), 2 machinery failure.",
 "not_applicable": na,
}
json.dump(m, open(os.path.join(VERIF, "MANIFEST.json"), "w"), indent=1)
print("checks:", len(checks), "not_applicable:", len(na))
