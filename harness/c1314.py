"""C13 / C14: exact oracles from spec/Interp.tla replayed into the real Quadratic / Models.

C14  for every poised subset of the lattice, every candidate lattice point and every index:
     Models.determinants(x, k) and Models.determinants(x)[k] against the ratio of the two exact
     determinants computed by TLC (Bareiss).
C13  the fresh least-Frobenius-norm models (Lagrange functions of every poised set and integer
     combinations of them) and the models after update histories (exact rational symmetric
     Broyden recursion in TLC) against every view of the real model: value, gradient, Hessian,
     Hessian-vector product, curvature, before and after a shift of the expansion point.
"""
import json
import math
import multiprocessing as mp
import os
import time
from fractions import Fraction as Fr

import numpy as np

from . import checks
from .common import OUT, Machinery, Verdict, run_tlc, write_cfg, write_evidence, seed, NCPU

EPS = np.finfo(float).eps


def _spec_digest():
    import hashlib
    from .common import SPEC
    h = hashlib.sha256()
    for f in ("Interp.tla", "MCInterp.tla"):
        h.update(open(os.path.join(SPEC, f), "rb").read())
    return h.hexdigest()[:16]


def _tlc_export(spec, consts, tag, simulate=None, depth=None, invariants=(), timeout=3600):
    """The exported oracle tables depend on the specification only (not on the tree under test):
    they are cached under out/cache, keyed by the content of the specification and the request."""
    import hashlib
    key = hashlib.sha256(json.dumps([_spec_digest(), spec, consts, simulate, depth, list(invariants), seed()],
                                    sort_keys=True).encode()).hexdigest()[:20]
    from .common import CACHE as cdir
    cpath = os.path.join(cdir, f"interp-{key}.json")
    if os.path.exists(cpath):
        with open(cpath) as fh:
            c = json.load(fh)
        return c["recs"], c["r"]
    recs, r = _tlc_export_nocache(spec, consts, tag, simulate, depth, invariants, timeout)
    with open(cpath, "w") as fh:
        json.dump({"recs": recs, "r": {"distinct": r["distinct"], "generated": r["generated"], "cached": True}}, fh)
    return recs, r


def _tlc_export_nocache(spec, consts, tag, simulate=None, depth=None, invariants=(), timeout=3600):
    cfg = write_cfg(os.path.join(OUT, f"interp-{tag}.cfg"), spec=spec, constants=consts, invariants=invariants)
    kw = {}
    if simulate:
        kw = dict(simulate=f"num={simulate}", depth=depth, seed_=seed() + 3)
    r = run_tlc("MCInterp", cfg, tag=f"interp-{tag}", timeout=timeout, **kw)
    if r["violated"]:
        raise Machinery(f"Interp.tla: {r['violated']} violated\n" + r["out"][-2000:])
    recs = []
    for line in r["out"].splitlines():
        if line.startswith('"EXPORT '):
            recs.append(json.loads(line[8:-1].replace('\\"', '"')))
    return recs, r


def _toy_models(n, npt, values=None, scale=1.0):
    """A real Models object on an unconstrained toy problem whose initial interpolation set is
    the standard one (x0 = 0, radius 1); the objective returns prescribed values at those points."""
    import sys
    from cobyqa.models import Models
    from cobyqa.problem import (ObjectiveFunction, BoundConstraints, LinearConstraints,
                                NonlinearConstraints, Problem)
    from cobyqa.main import _set_default_options
    from scipy.optimize import Bounds
    std = [(0,) * n]
    if n == 1:
        std = [(0,), (1,), (-1,)]
    else:
        std = [(0, 0), (1, 0), (0, 1), (-1, 0), (0, -1), (1, 1)]
    table = {}
    if values is not None:
        for p, v in zip(std, values):
            table[p] = float(v)

    def fun(x):
        return table.get(tuple(int(round(t / scale)) for t in x), 0.0)

    obj = ObjectiveFunction(fun, False, False)
    pb = Problem(obj, np.zeros(n), BoundConstraints(Bounds([-np.inf] * n, [np.inf] * n)),
                 LinearConstraints([], n, False), NonlinearConstraints([], False, False), None,
                 1e-8, False, False, 1, sys.maxsize, False)
    options = {"nb_points": npt, "radius_init": scale, "radius_final": min(1e-6, scale)}
    _set_default_options(options, n)
    return Models(pb, options, 0.0), options


def _cond(models):
    from cobyqa.models import build_system
    a, rs, (ev, _) = build_system(models.interpolation)
    ae = np.abs(ev)
    return float(np.max(ae) / np.min(ae[ae > 0])) if np.all(ae > 0) else float("inf")


def _poly(c, g, H, x):
    """exact value, gradient of q(x) = c + g.x + 1/2 x^T H x with Fraction coefficients"""
    n = len(g)
    Hx = [sum(H[a][b] * x[b] for b in range(n)) for a in range(n)]
    val = c + sum(g[i] * x[i] for i in range(n)) + Fr(1, 2) * sum(x[a] * Hx[a] for a in range(n))
    grad = [g[a] + Hx[a] for a in range(n)]
    return val, grad


def _cmp(errs, name, got, exp, scale, tol):
    got = np.atleast_1d(np.asarray(got, float)).ravel()
    exp = np.atleast_1d(np.asarray([float(e) for e in np.asarray(exp, object).ravel()], float))
    err = float(np.max(np.abs(got - exp), initial=0.0))
    rel = err / (tol * max(scale, 1.0))
    errs[name] = max(errs.get(name, 0.0), rel)
    return rel <= 1.0


def _views_ok(errs, q, interp, c, g, H, probes, dirs, tol, s=1.0):
    """compare every view of the real Quadratic q with the exact quadratic (c,g,H) at origin 0;
    s: length scale of the point set (errors are measured in units of value, value/s, value/s^2)"""
    n = len(g)
    scale = max([abs(float(c))] + [abs(float(v)) * s for v in g] +
                [abs(float(H[a][b])) * s * s for a in range(n) for b in range(n)] + [1.0])
    ok = True
    for x in probes:
        xf = [Fr(t) for t in x]
        val, grad = _poly(c, g, H, xf)
        xa = np.array([float(t) for t in x], float)
        r2 = float(np.dot(xa, xa)) / (s * s)
        ok &= _cmp(errs, "value", q(xa, interp), [val], scale * (1 + r2), tol)
        ok &= _cmp(errs, "grad", np.asarray(q.grad(xa, interp)) * s, [gg * Fr(s) for gg in grad], scale * (1 + math.sqrt(r2)), tol)
    Hf = [[H[a][b] * Fr(s) * Fr(s) for b in range(n)] for a in range(n)]
    ok &= _cmp(errs, "hess", np.asarray(q.hess(interp)) * s * s, Hf, scale, tol)
    for v in dirs:
        va = np.array([float(t) for t in v], float)
        vf = [Fr(float(t)) for t in v]
        Hv = [sum(H[a][b] * vf[b] for b in range(n)) for a in range(n)]
        vn = float(np.linalg.norm(va)) / s
        ok &= _cmp(errs, "hess_prod", np.asarray(q.hess_prod(va, interp)) * s, [t * Fr(s) for t in Hv], scale * (1 + vn), tol)
        ok &= _cmp(errs, "curv", [q.curv(va, interp)], [sum(vf[a] * Hv[a] for a in range(n))], scale * (1 + vn * vn), tol)
    return ok


def _sets_chunk(args):
    recs, which = args
    os.environ["OPENBLAS_NUM_THREADS"] = "1"
    from .common import import_cobyqa
    import_cobyqa()
    from cobyqa.models import Quadratic
    bad = []
    nchk = 0
    worst = {}
    shared = {}
    scales = (1.0, 2.0 ** -30, 2.0 ** 12) if which in ("C14", "both") else ()
    # C14: one Models object per (n, npt) is reused for all point sets of a chunk, as a run reuses
    # it across replacements; all sets are visited at each power-of-two scale in turn (the ratio
    # is scale invariant) and the indices in alternating order
    for scale in scales:
        for ri, rec in enumerate(recs):
            P = rec["P"]
            npt, n = len(P), len(P[0])
            if (n, npt) not in shared:
                shared[(n, npt)] = _toy_models(n, npt)
            models, options = shared[(n, npt)]
            det = rec["det"]
            models.interpolation.x_base = np.zeros(n)
            models.interpolation.xpt = np.array(P, float).T.copy() * scale
            cond = min(_cond(models), 1e12)
            tol = 2000.0 * EPS * cond
            order = list(range(npt)) if ri % 2 == 0 else list(range(npt - 1, -1, -1))
            for xi, x in enumerate(rec["lattice"]):
                xa = np.array(x, float) * scale
                allk = models.determinants(xa)
                for k in order:
                    exp = Fr(rec["sigma"][k][xi], det)
                    one = models.determinants(xa, k)
                    nchk += 1
                    e1 = abs(float(one) - float(exp)) / (tol * max(1.0, abs(float(exp))))
                    e2 = abs(float(allk[k]) - float(exp)) / (tol * max(1.0, abs(float(exp))))
                    worst["sigma"] = max(worst.get("sigma", 0.0), e1, e2)
                    if e1 > 1.0 or e2 > 1.0 or not (math.isfinite(one) and math.isfinite(allk[k])):
                        bad.append(("C14.ratio", {"P": P, "x": x, "k": k + 1, "scale": scale,
                                                  "exact": [rec["sigma"][k][xi], det],
                                                  "one_index": float(one), "all_indices": float(allk[k])}))
    for ri, rec in enumerate(recs):
        P = rec["P"]
        npt, n = len(P), len(P[0])
        if (n, npt) not in shared:
            shared[(n, npt)] = _toy_models(n, npt)
        models, options = shared[(n, npt)]
        models.interpolation.x_base = np.zeros(n)
        models.interpolation.xpt = np.array(P, float).T.copy()
        cond = min(_cond(models), 1e12)
        if which in ("C13", "both"):
            tol = 2000.0 * EPS * cond
            probes = rec["lattice"] + [[2 * t for t in P[0]]]
            dirs = [p for p in rec["lattice"] if any(p)][:4] + [[3] * n]
            lag = rec["lagrange"]
            combos = [[1 if i == k else 0 for i in range(npt)] for k in range(npt)]
            combos += [[((k * 7 + i * 3) % 5) - 2 for i in range(npt)] for k in range(2)]
            for r in combos:
                c = sum(Fr(r[k] * lag[k]["c"], lag[k]["den"]) for k in range(npt))
                g = [sum(Fr(r[k] * lag[k]["g"][i], lag[k]["den"]) for k in range(npt)) for i in range(n)]
                H = [[sum(Fr(r[k] * lag[k]["H"][a][b], lag[k]["den"]) for k in range(npt)) for b in range(n)] for a in range(n)]
                q = Quadratic(models.interpolation, np.array(r, float), False)
                errs = {}
                nchk += 1
                if not _views_ok(errs, q, models.interpolation, c, g, H, probes, dirs, tol):
                    bad.append(("C13.fresh", {"P": P, "values": r, "rel_errors": errs}))
                for kk, vv in errs.items():
                    worst[kk] = max(worst.get(kk, 0.0), vv)
    return bad, nchk, worst


def _hist_chunk(recs):
    os.environ["OPENBLAS_NUM_THREADS"] = "1"
    from .common import import_cobyqa
    import_cobyqa()
    bad = []
    worst = {}
    nchk = 0
    for ri, rec in enumerate(recs):
      for scale in ((1.0, 2.0 ** -30) if ri % 3 == 0 else (1.0,)):
        hist = rec["hist"]
        r0 = hist[0]["r"]
        npt = len(r0)
        n = len(rec["P"][0])
        models, options = _toy_models(n, npt, r0, scale)
        ok_build = True
        for h in hist[1:]:
            try:
                xn = np.array(h["x"], float) * scale
                fv = float(models.fun(xn)) if h["f"] == 99 else float(h["f"])
                models.update_interpolation(h["k"] - 1, xn, fv, np.zeros(0), np.zeros(0))
            except Exception as ex:
                bad.append(("C13.update", {"hist": hist, "scale": scale, "error": f"{type(ex).__name__}: {ex}"}))
                ok_build = False
                break
        if not ok_build:
            continue
        q = rec["q"]
        # q_s(x) = q(x / s): coefficients scale by exact powers of two
        c = Fr(q["c"][0], q["c"][1])
        g = [Fr(a[0], a[1]) / Fr(scale) for a in q["g"]]
        H = [[Fr(e[0], e[1]) / (Fr(scale) * Fr(scale)) for e in row] for row in q["H"]]
        cond = min(_cond(models), 1e12)
        tol = 5000.0 * EPS * cond * (1 + len(hist))
        lat = [[a] for a in (-2, -1, 0, 1, 2)] if n == 1 else [[a, b] for a in (-1, 0, 1) for b in (-1, 0, 1)]
        latS = [[Fr(t) * Fr(scale) for t in p] for p in lat]
        dirs = [[float(t) * scale for t in p] for p in lat if any(p)][:4]
        errs = {}
        nchk += 1
        if not _views_ok(errs, models._fun, models.interpolation, c, g, H, latS, dirs, tol, scale):
            bad.append(("C13.history", {"hist": hist, "scale": scale, "rel_errors": errs}))
        # shift of the expansion point: the function must not change
        newbase = np.array(rec["P"][-1], float) * scale
        models.shift_x_base(newbase.copy(), options)
        errs2 = {}
        if not _views_ok(errs2, models._fun, models.interpolation, c, g, H, latS, dirs, 4 * tol, scale):
            bad.append(("C13.shift", {"hist": hist, "scale": scale, "new_base": rec["P"][-1], "rel_errors": errs2}))
        for d in (errs, errs2):
            for kk, vv in d.items():
                worst[kk] = max(worst.get(kk, 0.0), vv)
    return bad, nchk, worst


def _run_pool(fn, chunks):
    out = []
    with mp.get_context("fork").Pool(NCPU) as pool:
        for r in pool.imap_unordered(fn, chunks):
            out.append(r)
    return out


def _sets(tier):
    recs = []
    states = 0
    for nn, coord, npts in ((1, "<-C1", "<-NP1"), (2, "<-C2", "<-NP2")):
        rr, r = _tlc_export("SetsSpec", dict(N=nn, Coord=coord, Npts=npts, Vals="<-V2", MaxHist=1), f"sets{nn}")
        recs += rr
        states += r["distinct"]
    return recs, states


def _hists(tier):
    recs = []
    states = 0
    plan = [(1, "<-C1", "<-NP1", "<-V3", 3, 60 if tier == "quick" else 400),
            (2, "<-C2", "<-NP2", "<-V2", 2, 60 if tier == "quick" else 500),
            (2, "<-C2", "<-NP2", "<-V2", 3, 30 if tier == "quick" else 300)]
    for i, (nn, coord, npts, vals, mh, num) in enumerate(plan):
        rr, r = _tlc_export("HistSimSpec", dict(N=nn, Coord=coord, Npts=npts, Vals=vals, MaxHist=mh), f"hist{i}",
                            simulate=num, depth=mh + 3, invariants=["Interpolates", "ExportHist"])
        recs += rr
        states += r["generated"]
    return recs, states


def check(pid, tier):
    t0 = time.time()
    v = Verdict(pid)
    from .common import import_cobyqa
    import_cobyqa()
    sets, st1 = _sets(tier)
    if not sets:
        raise Machinery("no point sets exported")
    n = max(1, len(sets) // (4 * NCPU))
    chunks = [(sets[i:i + n], pid) for i in range(0, len(sets), n)]
    worst = {}
    nchk = 0
    for bad, k, w in _run_pool(_sets_chunk, chunks):
        nchk += k
        for cl, det in bad:
            v.add(cl, json.dumps({kk: det[kk] for kk in det if kk in ("P", "x", "k", "values")}), det)
        for kk, vv in w.items():
            worst[kk] = max(worst.get(kk, 0.0), vv)
    cov = {"states": st1, "transitions": st1, "poised_sets": len(sets), "comparisons": nchk}
    samples = [{"P": sets[0]["P"], "det": sets[0]["det"]}, {"P": sets[-1]["P"], "det": sets[-1]["det"]}]
    if pid == "C13":
        hs, st2 = _hists(tier)
        if not hs:
            raise Machinery("no update histories exported")
        m = max(1, len(hs) // (4 * NCPU))
        for bad, k, w in _run_pool(_hist_chunk, [hs[i:i + m] for i in range(0, len(hs), m)]):
            nchk += k
            for cl, det in bad:
                v.add(cl, json.dumps(det["hist"]), det)
            for kk, vv in w.items():
                worst[kk] = max(worst.get(kk, 0.0), vv)
        cov["histories"] = len(hs)
        cov["states"] += st2
        cov["transitions"] += st2
        samples.append({"history": hs[0]["hist"]})
    tcov = checks.trace_part(pid, "Runs", 200, ("interp", "tr"), "quick" if tier == "quick" else "quick4", v)
    cov["trace_part"] = {k: tcov[k] for k in ("traces_validated_against_impl", "failed_clauses", "states")}
    cov["states"] += tcov["states"]
    cov["transitions"] += tcov["transitions"]
    cov["traces_validated_against_impl"] = nchk + tcov["traces_validated_against_impl"]
    cov["largest_error_over_tolerance"] = {k: round(x, 6) for k, x in worst.items()}
    cov["samples"] = samples
    rc = v.finish()
    write_evidence(pid, tier, "model_checking", cov, time.time() - t0, len(v.violations),
                   ["exact determinants / least-Frobenius-norm coefficients / Broyden recursion are computed by TLC (Interp.tla) in integer and rational arithmetic",
                    "exactness only for n = 1 on the lattice -4..4 (2-3 points) and n = 2 on {-1,0,1}^2 (3-6 points), histories of length <= 3: TLC integers are 32-bit",
                    "the comparison |float - exact| <= c * eps * cond(W) * scale is evaluated by the harness; polynomial views are derived from TLC's coefficients with Python Fractions",
                    "the interpolation set of a real Models object is set through the public xpt / x_base setters"])
    return rc
