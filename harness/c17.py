"""C17: two-sided user constraints are translated faithfully (spec/Constraints.tla).

TLC checks the theorem (largest internal violation = largest excursion from [lb, ub]) on the
whole limit/value lattice and emits the universe of constraint lists with the expected numbers
of internal inequalities / equalities and the expected violations; every case is replayed
through minimize (maxfev = 1) and through the Problem object minimize built."""
import json
import math
import multiprocessing as mp
import os
import subprocess
import time

import numpy as np

from . import corpus
from .common import OUT, SPEC, Machinery, Verdict, write_evidence, seed, NCPU

KEY = {-1000000: float("nan"), -1000: -np.inf, 1000: np.inf}


def _v(k, base=0.0, h=1.0):
    return KEY.get(k, base + float(k) * h)


# the integer lattice of Constraints.tla is embedded in the doubles by v -> base + v*h (exact for these
# base / h): the unit embedding, and two fine ones where the finite limits are close but far from equal
# "to rounding" (1.9e-6 apart around 1; 7.5e-9 apart near 0), so that they must still give two inequalities
EMBED = ((0.0, 1.0), (1.0, 2.0 ** -20), (0.0, 2.0 ** -28))


def universe(uid):
    out = os.path.join(OUT, f"universe_cons_{uid}.json")
    cfg = os.path.join(OUT, "cons.cfg")
    with open(cfg, "w") as fh:
        fh.write("INIT CInit\nNEXT CNext\nCHECK_DEADLOCK FALSE\n")
    meta = os.path.join(OUT, "tlc", f"cons-{uid}-{os.getpid()}")
    env = dict(os.environ, UNIVERSE_ID=uid, UNIVERSE_OUT=out)
    p = subprocess.run(["tlc", "-workers", "1", "-metadir", meta, "-noGenerateSpecTE", "-config", cfg,
                        "Constraints.tla"], cwd=SPEC, env=env, capture_output=True, text=True, timeout=900)
    subprocess.run(["rm", "-rf", meta])
    if '"UNIVERSE"' not in p.stdout or "Assumption" in p.stdout and "false" in p.stdout:
        raise Machinery("Constraints.tla: theorem or universe emission failed\n" + p.stdout[-2000:])
    U = json.load(open(out))
    U.sort(key=lambda d: json.dumps(d, sort_keys=True))
    return U


def _replay(args):
    os.environ["OPENBLAS_NUM_THREADS"] = "1"
    cases, variant0 = args
    from .common import import_cobyqa
    cobyqa = import_cobyqa()
    import cobyqa.main as MAIN
    import cobyqa.problem as PB
    from scipy.optimize import LinearConstraint, NonlinearConstraint
    bad = []
    for ci, case in enumerate(cases):
        variant = (variant0 + ci) % 4
        base, h = EMBED[((variant0 + ci) // 4) % 3]
        comps = [c for o in case["objs"] for c in o["comps"]]
        n = len(comps) + 1                       # one spare variable (value 7)
        x = np.array([base + float(c[1]) * h for c in comps] + [7.0])
        cons = []
        pos = 0
        for o in case["objs"]:
            m = len(o["comps"])
            idx = list(range(pos, pos + m))
            pos += m
            lb = np.array([_v(c[0][0], base, h) for c in o["comps"]])
            ub = np.array([_v(c[0][1], base, h) for c in o["comps"]])
            same = all(c[0] == o["comps"][0][0] for c in o["comps"])
            if same and variant % 2 == 1:        # scalar-broadcast limits
                lba, uba = float(lb[0]), float(ub[0])
            else:
                lba, uba = lb, ub
            if o["kind"] == "lin":
                A = np.zeros((m, n))
                for r, i in enumerate(idx):
                    A[r, i] = 1.0
                if variant >= 2:
                    A[:, n - 1] = np.nan          # NaN coefficients count as 0
                cons.append(LinearConstraint(A, lba, uba))
            else:
                cons.append(NonlinearConstraint(lambda z, idx=idx: np.array([z[i] for i in idx]), lba, uba))
        cap = {}

        class Rec(PB.Problem):
            def __init__(self, *a, **k):
                super().__init__(*a, **k)
                cap["pb"] = self

        old = MAIN.Problem
        MAIN.Problem = Rec
        try:
            res = cobyqa.minimize(lambda z: 0.5, x, constraints=cons, options={"maxfev": 1})
            err = None
        except Exception as ex:
            res = None
            err = f"{type(ex).__name__}: {ex}"
        finally:
            MAIN.Problem = old
        got = {}
        if err is None:
            pb = cap.get("pb")
            got["maxcv"] = float(res.maxcv)
            got["x_same"] = bool(np.array_equal(res.x, x))
            try:
                got["lin_ub"], got["lin_eq"] = int(pb.m_linear_ub), int(pb.m_linear_eq)
                got["nl_ub"], got["nl_eq"] = int(pb.m_nonlinear_ub), int(pb.m_nonlinear_eq)
                ru = pb.linear.a_ub @ x - pb.linear.b_ub
                rq = pb.linear.a_eq @ x - pb.linear.b_eq
                got["lin_viol"] = float(max(np.max(ru, initial=0.0), np.max(np.abs(rq), initial=0.0)))
            except Exception as ex:
                got["introspect"] = f"{type(ex).__name__}: {ex}"
        exp = {k: case[k] for k in ("lin_ub", "lin_eq", "nl_ub", "nl_eq")}
        ok = (err is None and got.get("x_same") and got["maxcv"] == float(case["viol"]) * h
              and all(got.get(k) == exp[k] for k in exp)
              and got.get("lin_viol") == float(case["lin_viol"]) * h)
        if not ok:
            clause = "C17.raise" if err else ("C17.maxcv" if got.get("maxcv") != float(case["viol"]) * h else
                                              ("C17.counts" if any(got.get(k) != exp[k] for k in exp) else "C17.linear"))
            bad.append((clause, {"objs": case["objs"], "variant": variant, "embedding": [base, h],
                                 "expected": {**exp, "viol": case["viol"] * h, "lin_viol": case["lin_viol"] * h},
                                 "got": got, "error": err}))
    return bad, len(cases)


def check(pid, tier):
    t0 = time.time()
    v = Verdict("C17")
    cases = []
    sizes = {}
    for uid in ("one1", "one2", "two", "three", "wide"):
        U = universe(uid)
        sizes[uid] = len(U)
        if tier != "thorough" and len(U) > 1500:
            rng = np.random.RandomState(seed() + len(uid))
            idx = sorted(rng.choice(len(U), size=1500, replace=False).tolist())
            U = [U[i] for i in idx]
        cases += U
    n = max(1, len(cases) // (4 * NCPU))
    chunks = [(cases[i:i + n], i) for i in range(0, len(cases), n)]
    nrep = 0
    with mp.get_context("fork").Pool(NCPU) as pool:
        for bad, k in pool.imap_unordered(_replay, chunks):
            nrep += k
            for clause, det in bad:
                v.add(clause, json.dumps(det["objs"]) + f" variant={det['variant']} embed={det['embedding']}", det)
    usize = sum(sizes.values())
    cov = {"states": usize, "transitions": usize, "traces_validated_against_impl": nrep,
           "universe_size": usize, "universe_visited": nrep, "exhaustive": nrep == usize,
           "universes": sizes, "lattice_theorem": "ASSUME Faithful checked by TLC on 15 limit patterns x 5 values",
           "samples": [cases[0], cases[len(cases) // 2]]}
    rc = v.finish()
    write_evidence("C17", tier, "model_checking", cov, time.time() - t0, len(v.violations),
                   ["the expected internal form (counts, violations) is computed by TLC from spec/Constraints.tla, transcribed from the documentation",
                    "limits over {-inf,1,3,+inf,NaN}, values over {0..4}, embedded in the doubles by v -> base + v*h with (base,h) in {(0,1), (1,2^-20), (0,2^-28)}: exact in floating point; lb=+inf / ub=-inf and lb>ub are outside the lattice",
                    "the Problem object built by minimize is observed by substituting a recording subclass"])
    return rc
