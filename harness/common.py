"""Shared machinery: paths, repository import guard, TLC runner, evidence, known findings."""
import json
import os
import re
import shutil
import subprocess
import sys
import time

VERIF = os.path.dirname(os.path.dirname(os.path.abspath(__file__)))
REPO = os.environ.get("VERIF_REPO", "/repo")
SPEC = os.path.join(VERIF, "spec")
OUT = os.environ.get("VERIF_OUT", os.path.join(VERIF, "out"))      # scratch (self-test overrides it)
EVID = os.environ.get("VERIF_EVID", os.path.join(VERIF, "evidence"))
CACHE = os.path.join(VERIF, "out", "cache")                          # specification-only artefacts
REPLAYS = os.path.join(OUT, "replays")
PY = "/venv/bin/python"
NCPU = os.cpu_count() or 4

for _d in (OUT, EVID, REPLAYS, os.path.join(OUT, "tlc"), CACHE):
    os.makedirs(_d, exist_ok=True)


class Machinery(Exception):
    """A failure of the verification machinery itself (exit code 2)."""


def seed():
    try:
        return int(os.environ.get("VERIF_SEED", "0"))
    except ValueError:
        return 0


def import_cobyqa():
    """Import cobyqa from the tree under test and make sure it is that tree."""
    os.environ.setdefault("OPENBLAS_NUM_THREADS", "1")
    os.environ.setdefault("OMP_NUM_THREADS", "1")
    if REPO not in sys.path:
        sys.path.insert(0, REPO)
    import cobyqa  # noqa

    f = os.path.realpath(cobyqa.__file__)
    if not f.startswith(os.path.realpath(REPO) + os.sep):
        raise Machinery(f"cobyqa imported from {f}, expected under {REPO}")
    return cobyqa


def tree_digest():
    """Content hash of the python sources of the tree under test."""
    import hashlib

    h = hashlib.sha256()
    root = os.path.join(REPO, "cobyqa")
    for dp, dn, fn in sorted(os.walk(root)):
        dn.sort()
        if "__pycache__" in dp:
            continue
        for f in sorted(fn):
            if f.endswith(".py"):
                p = os.path.join(dp, f)
                h.update(os.path.relpath(p, root).encode())
                with open(p, "rb") as fh:
                    h.update(fh.read())
    return h.hexdigest()[:16]


# --------------------------------------------------------------------------- TLC
_RE_STATES = re.compile(r"(\d+) states generated, (\d+) distinct states found")
_RE_INV = re.compile(r"Error: Invariant (\S+) is violated")
_RE_PROP = re.compile(r"Error: (?:Action|Temporal) propert(?:y|ies) (\S*)")


def write_cfg(path, spec=None, init=None, next_=None, constants=None, invariants=(),
              properties=(), constraints=(), action_constraints=(), postcondition=None,
              view=None, deadlock=False, extra=()):
    lines = []
    if spec:
        lines.append(f"SPECIFICATION {spec}")
    if init:
        lines.append(f"INIT {init}")
    if next_:
        lines.append(f"NEXT {next_}")
    if constants:
        lines.append("CONSTANTS")
        for k, v in constants.items():
            if isinstance(v, str) and v.startswith("<-"):
                lines.append(f" {k} {v}")
            elif isinstance(v, bool):
                lines.append(f" {k} = {'TRUE' if v else 'FALSE'}")
            elif isinstance(v, str):
                lines.append(f' {k} = "{v}"')
            else:
                lines.append(f" {k} = {v}")
    for i in invariants:
        lines.append(f"INVARIANT {i}")
    for p in properties:
        lines.append(f"PROPERTY {p}")
    for c in constraints:
        lines.append(f"CONSTRAINT {c}")
    for c in action_constraints:
        lines.append(f"ACTION_CONSTRAINT {c}")
    if postcondition:
        lines.append(f"POSTCONDITION {postcondition}")
    if view:
        lines.append(f"VIEW {view}")
    lines.append(f"CHECK_DEADLOCK {'TRUE' if deadlock else 'FALSE'}")
    lines.extend(extra)
    with open(path, "w") as fh:
        fh.write("\n".join(lines) + "\n")
    return path


def run_tlc(module, cfg, workers=None, env=None, timeout=3600, simulate=None, depth=None,
            coverage=False, tag=None, seed_=None, keep_out=False, extra=()):
    """Run TLC on spec/<module>.tla with configuration file cfg.

    Returns dict: ok, generated, distinct, violated (invariant / property name or None),
    out (full text), printed (list of PrintT payload strings), wall, depth_reached.
    Raises Machinery on TLC errors that are not property violations.
    """
    tag = tag or f"{module}-{os.getpid()}-{int(time.time()*1000) % 100000}"
    meta = os.path.join(OUT, "tlc", tag)
    shutil.rmtree(meta, ignore_errors=True)
    cmd = ["tlc", "-workers", str(workers or NCPU), "-metadir", meta, "-noGenerateSpecTE",
           "-config", cfg]
    if simulate:
        cmd += ["-simulate", simulate]
    if depth:
        cmd += ["-depth", str(depth)]
    if coverage:
        cmd += ["-coverage", "1"]
    if seed_ is not None:
        cmd += ["-seed", str(seed_)]
    cmd += list(extra)
    cmd.append(module + ".tla")
    e = dict(os.environ)
    if env:
        e.update({k: str(v) for k, v in env.items()})
    t0 = time.time()
    try:
        p = subprocess.run(cmd, cwd=SPEC, env=e, capture_output=True, text=True, timeout=timeout)
    except subprocess.TimeoutExpired as ex:
        subprocess.run(["pkill", "-f", meta], check=False)
        shutil.rmtree(meta, ignore_errors=True)
        raise Machinery(f"TLC timed out after {timeout}s: {' '.join(cmd)}") from ex
    wall = time.time() - t0
    shutil.rmtree(meta, ignore_errors=True)
    out = p.stdout + p.stderr
    res = {"out": out, "wall": wall, "violated": None, "generated": 0, "distinct": 0,
           "cmd": " ".join(cmd)}
    m = None
    for m in _RE_STATES.finditer(out):
        pass
    if m:
        res["generated"], res["distinct"] = int(m.group(1)), int(m.group(2))
    md = re.search(r"depth of the complete state graph search is (\d+)", out)
    res["depth"] = int(md.group(1)) if md else 0
    mi = _RE_INV.search(out)
    if mi:
        res["violated"] = mi.group(1)
    elif "is violated" in out and "Error:" in out:
        mp = re.search(r"Error: (.*) violated", out)
        res["violated"] = mp.group(1) if mp else "property"
    res["ok"] = ("Model checking completed. No error has been found." in out
                 or (simulate and res["violated"] is None and "Error:" not in out))
    if not res["ok"] and res["violated"] is None:
        tail = "\n".join(out.splitlines()[-40:])
        raise Machinery(f"TLC failed ({' '.join(cmd)}):\n{tail}")
    if keep_out:
        with open(os.path.join(OUT, f"{tag}.tlcout"), "w") as fh:
            fh.write(out)
    return res


def tlc_error_trace(out):
    """Extract the counterexample part of a TLC output."""
    i = out.find("Error:")
    return out[i:i + 20000] if i >= 0 else ""


def parse_tla_value(s):
    """Parse a printed TLA+ value (records, sequences, sets, ints, strings, booleans)."""
    pos = [0]
    n = len(s)

    def ws():
        while pos[0] < n and s[pos[0]] in " \n\t\r":
            pos[0] += 1

    def val():
        ws()
        c = s[pos[0]]
        if s.startswith("<<", pos[0]):
            pos[0] += 2
            items = []
            ws()
            if s.startswith(">>", pos[0]):
                pos[0] += 2
                return items
            while True:
                items.append(val())
                ws()
                if s.startswith(">>", pos[0]):
                    pos[0] += 2
                    return items
                assert s[pos[0]] == ",", s[pos[0]:pos[0] + 30]
                pos[0] += 1
        if c == "{":
            pos[0] += 1
            items = []
            ws()
            if s[pos[0]] == "}":
                pos[0] += 1
                return items
            while True:
                items.append(val())
                ws()
                if s[pos[0]] == "}":
                    pos[0] += 1
                    return items
                assert s[pos[0]] == ","
                pos[0] += 1
        if c == "[":
            pos[0] += 1
            d = {}
            while True:
                ws()
                j = pos[0]
                while s[pos[0]] not in " |":
                    pos[0] += 1
                k = s[j:pos[0]]
                ws()
                assert s.startswith("|->", pos[0]), s[pos[0]:pos[0] + 30]
                pos[0] += 3
                d[k] = val()
                ws()
                if s[pos[0]] == "]":
                    pos[0] += 1
                    return d
                assert s[pos[0]] == ","
                pos[0] += 1
        if c == "(":
            # function printed as (k :> v @@ k :> v)
            pos[0] += 1
            d = {}
            while True:
                k = val()
                ws()
                assert s.startswith(":>", pos[0])
                pos[0] += 2
                d[k if not isinstance(k, list) else tuple(k)] = val()
                ws()
                if s[pos[0]] == ")":
                    pos[0] += 1
                    return d
                assert s.startswith("@@", pos[0])
                pos[0] += 2
        if c == '"':
            j = pos[0] + 1
            k = s.index('"', j)
            pos[0] = k + 1
            return s[j:k]
        if s.startswith("TRUE", pos[0]):
            pos[0] += 4
            return True
        if s.startswith("FALSE", pos[0]):
            pos[0] += 5
            return False
        j = pos[0]
        if s[j] == "-":
            pos[0] += 1
        while pos[0] < n and s[pos[0]].isdigit():
            pos[0] += 1
        return int(s[j:pos[0]])

    return val()


def printed_values(out, marker):
    """All PrintT values of the form <<"marker", v>>; tolerant of multi-line printing and of
    interleaving between workers (bracket matching)."""
    vals = []
    needle = re.compile(r'<<\s*"' + re.escape(marker) + r'"\s*,')
    i = 0
    while True:
        mm = needle.search(out, i)
        if not mm:
            break
        i = mm.start()
        depth = 0
        j = i
        while j < len(out):
            if out.startswith("<<", j):
                depth += 1
                j += 2
                continue
            if out.startswith(">>", j):
                depth -= 1
                j += 2
                if depth == 0:
                    break
                continue
            if out[j] == '"':
                j = out.index('"', j + 1) + 1
                continue
            j += 1
        try:
            pv = parse_tla_value(out[i:j])
            vals.append(pv[1] if len(pv) == 2 else pv[1:])
        except Exception:
            pass
        i = j
    return vals


# ---------------------------------------------------------------- findings / verdicts
def load_known():
    p = os.path.join(VERIF, "KNOWN_FINDINGS.jsonl")
    items = []
    if os.path.exists(p):
        for line in open(p):
            line = line.strip()
            if line and not line.startswith("#"):
                items.append(json.loads(line))
    return items


class Verdict:
    """Collects violations of one property; separates known findings; writes replay files."""

    def __init__(self, pid):
        self.pid = pid
        self.violations = []      # dicts: clause, where, detail
        self.known_hits = []
        self.known = [k for k in load_known() if k.get("property") == pid and k.get("kind") == "finding"]
        self.diag = {}
        import glob
        for f in glob.glob(os.path.join(REPLAYS, f"{pid}-*.json")):
            try:
                os.remove(f)
            except OSError:
                pass

    def add(self, clause, where, detail=None):
        for k in self.known:
            if k.get("clause") == clause and k.get("where") == where:
                if k not in self.known_hits:
                    self.known_hits.append(k)
                return
        self.violations.append({"clause": clause, "where": where, "detail": detail})

    def note(self, key, n=1):
        self.diag[key] = self.diag.get(key, 0) + n

    def finish(self):
        for k in self.known_hits:
            print(f"KNOWN-FINDING: property={self.pid} {k.get('what', k.get('clause'))} [{k.get('where')}]")
        if not self.violations:
            return 0
        seen = set()
        n = 0
        for v in self.violations:
            key = (v["clause"], json.dumps(v["where"], sort_keys=True, default=str))
            if key in seen:
                continue
            seen.add(key)
            n += 1
            if n > 10:
                continue
            path = os.path.join(REPLAYS, f"{self.pid}-{n}.json")
            with open(path, "w") as fh:
                json.dump({"property": self.pid, **v}, fh, indent=1, default=str)
            print(f"VIOLATION property={self.pid} replay={path}")
            print(f"  clause={v['clause']} where={json.dumps(v['where'], default=str)[:300]}")
        return 1


def write_evidence(pid, tier, level, coverage, wall, violations, assumptions):
    ev = {
        "property_id": pid,
        "tier": tier,
        "seed": seed(),
        "level": level,
        "coverage": coverage,
        "assumptions": assumptions,
        "wall_s": round(wall, 2),
        "violations": int(violations),
    }
    with open(os.path.join(EVID, f"{pid}.json"), "w") as fh:
        json.dump(ev, fh, indent=1, default=str)
    return ev


def tlc_universe(module, uid, init, next_, extra_env=None, tag=None, timeout=1800):
    """Evaluate the ASSUME-time universe emission of spec/<module>.tla for universe `uid` and
    return the JSON list.  The result depends on the specification only: it is cached under
    out/cache keyed by the content of the module (and of the modules it extends)."""
    import hashlib
    h = hashlib.sha256()
    for f in sorted(os.listdir(SPEC)):
        if f.endswith(".tla"):
            with open(os.path.join(SPEC, f), "rb") as fh:
                h.update(f.encode() + fh.read())
    key = hashlib.sha256((h.hexdigest() + module + uid + json.dumps(extra_env or {}, sort_keys=True)).encode()).hexdigest()[:20]
    cdir = CACHE
    cpath = os.path.join(cdir, f"universe-{module}-{uid}-{key}.json")
    if os.path.exists(cpath):
        with open(cpath) as fh:
            return json.load(fh)
    out = os.path.join(OUT, f"universe_{module}_{uid}_{os.getpid()}.json")
    cfg = os.path.join(OUT, f"u-{module}-{os.getpid()}.cfg")
    with open(cfg, "w") as fh:
        fh.write(f"INIT {init}\nNEXT {next_}\nCHECK_DEADLOCK FALSE\n")
    meta = os.path.join(OUT, "tlc", f"u-{module}-{uid}-{os.getpid()}")
    env = dict(os.environ, UNIVERSE_ID=uid, UNIVERSE_OUT=out)
    env.update({k: str(v) for k, v in (extra_env or {}).items()})
    p = subprocess.run(["tlc", "-workers", "1", "-metadir", meta, "-noGenerateSpecTE", "-config", cfg,
                        module + ".tla"], cwd=SPEC, env=env, capture_output=True, text=True, timeout=timeout)
    shutil.rmtree(meta, ignore_errors=True)
    if '"UNIVERSE"' not in p.stdout:
        raise Machinery(f"{module}.tla: universe {uid} could not be emitted (or its theorem failed)\n" + p.stdout[-3000:])
    with open(out) as fh:
        U = json.load(fh)
    os.remove(out)
    U.sort(key=lambda d: json.dumps(d, sort_keys=True))
    with open(cpath, "w") as fh:
        json.dump(U, fh)
    return U
