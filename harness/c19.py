"""C19: options and constants validated and completed consistently (spec/Options.tla)."""
import hashlib
import json
import math
import multiprocessing as mp
import os
import subprocess
import sys
import time
import warnings

import numpy as np

from .common import OUT, SPEC, Machinery, Verdict, run_tlc, write_cfg, write_evidence, seed, NCPU, printed_values
from . import corpus

N = 2
OPEN01 = ["decrease_radius_factor", "decrease_resolution_factor", "low_ratio", "high_ratio",
          "very_low_ratio", "short_step_threshold", "low_radius_factor", "byrd_omojokun_factor"]
ABOVE1 = ["increase_radius_factor", "increase_radius_threshold", "decrease_radius_threshold",
          "large_resolution_threshold", "moderate_resolution_threshold", "penalty_increase_factor",
          "threshold_ratio_constraints", "large_gradient_factor", "resolution_factor"]
OPTIONS = ["disp", "maxfev", "maxiter", "target", "feasibility_tol", "radius_init", "radius_final",
           "nb_points", "scale", "filter_size", "store_history", "history_size", "debug"]
POS = ["below", "atlo", "inlo", "typ", "inhi", "athi", "above"]


def lattice(name):
    if name in OPEN01:
        v = [-0.5, 0.0, 0.001, 0.4, 0.999, 1.0, 1.5]
    elif name in ABOVE1:
        v = [0.5, 1.0, 1.001, 3.0, 50.0, 1e3, 1e6]
    elif name == "penalty_increase_threshold":
        v = [0.5, 1.0, 1.001, 1.5, 3.0, 10.0, 100.0]
    elif name in ("large_shift_factor", "radius_final"):
        v = [-1.0, 0.0, 1e-9, 1e-3, 0.5, 2.0, 10.0]
    elif name == "radius_init":
        v = [-1.0, 0.0, 1e-9, 0.5, 2.0, 10.0, 100.0]
    elif name in ("maxfev", "maxiter", "history_size", "filter_size"):
        v = [-1, 0, 1, 7, 20, 100, 1000]
    elif name == "nb_points":
        v = [0, N, N + 1, 2 * N + 1, (N + 1) * (N + 2) // 2, (N + 1) * (N + 2) // 2 + 1, 100]
    elif name == "feasibility_tol":
        v = [-1.0, 0.0, 1e-12, 1e-6, 1e-3, 1.0, 10.0]
    elif name == "target":
        v = [-1e30, -10.0, -1.0, 0.0, 1.0, 10.0, 1e30]
    elif name in ("disp", "scale", "store_history", "debug", "improve_tcg"):
        v = [False, False, False, True, True, 0, 1]
        if name == "disp":
            v = [False, False, False, False, False, 0, 0]
    else:
        raise KeyError(name)
    return dict(zip(POS, v))


EPS = np.finfo(float).eps
DEFAULTS = {  # from the documentation of minimize
    "disp": False, "maxfev": 500 * N, "maxiter": 1000 * N, "target": -np.inf,
    "feasibility_tol": math.sqrt(EPS), "radius_init": 1.0, "radius_final": 1e-6,
    "nb_points": 2 * N + 1, "scale": False, "filter_size": sys.maxsize, "store_history": False,
    "history_size": sys.maxsize, "debug": False,
    "decrease_radius_factor": 0.5, "increase_radius_factor": math.sqrt(2.0),
    "increase_radius_threshold": 2.0, "decrease_radius_threshold": 1.4,
    "decrease_resolution_factor": 0.1, "large_resolution_threshold": 250.0,
    "moderate_resolution_threshold": 16.0, "low_ratio": 0.1, "high_ratio": 0.7,
    "very_low_ratio": 0.01, "penalty_increase_threshold": 1.5, "penalty_increase_factor": 2.0,
    "short_step_threshold": 0.5, "low_radius_factor": 0.1, "byrd_omojokun_factor": 0.8,
    "threshold_ratio_constraints": 2.0, "large_shift_factor": 10.0, "large_gradient_factor": 10.0,
    "resolution_factor": 2.0, "improve_tcg": True,
}


def universe(uid):
    out = os.path.join(OUT, f"universe_opt_{uid}.json")
    cfg = os.path.join(OUT, "opt-u.cfg")
    with open(cfg, "w") as fh:
        fh.write("INIT OInit\nNEXT ONext\nCHECK_DEADLOCK FALSE\n")
    empty = os.path.join(OUT, "opt-empty.json")
    with open(empty, "w") as fh:
        fh.write("[]")
    meta = os.path.join(OUT, "tlc", f"optu-{os.getpid()}")
    env = dict(os.environ, UNIVERSE_ID=uid, UNIVERSE_OUT=out, OUTCOME_FILE=empty)
    p = subprocess.run(["tlc", "-workers", "1", "-metadir", meta, "-noGenerateSpecTE", "-config", cfg, "Options.tla"],
                       cwd=SPEC, env=env, capture_output=True, text=True, timeout=900)
    subprocess.run(["rm", "-rf", meta])
    if '"UNIVERSE"' not in p.stdout:
        raise Machinery("TLC could not enumerate options universe\n" + p.stdout[-2000:])
    U = json.load(open(out))
    U.sort(key=lambda d: json.dumps(d, sort_keys=True))
    return U


def _fun(x):
    return float((x[0] - 0.3) ** 2 + 2.0 * (x[1] + 0.2) ** 2 + 0.1 * x[0] * x[1])


def _run_cell(cell):
    os.environ["OPENBLAS_NUM_THREADS"] = "1"
    from .common import import_cobyqa
    cobyqa = import_cobyqa()
    import cobyqa.framework as FW
    import cobyqa.main as MAIN
    cid, settings, unknown, fixedvar = cell
    options, consts = {}, {}
    sup = {}
    for s in settings:
        v = lattice(s["name"])[s["pos"]]
        sup[s["name"]] = v
        (options if s["name"] in OPTIONS else consts)[s["name"]] = v
    if unknown == "option":
        options["bogus_option"] = 1
    elif unknown == "constant":
        consts["bogus_constant"] = 1.0

    def call(opts, cons):
        cap = {}
        seq = hashlib.sha256()

        class Rec(FW.TrustRegion):
            def __init__(self, pb, o, c):
                cap["o"] = dict(o)
                cap["c"] = dict(c)
                super().__init__(pb, o, c)

        def f(x):
            seq.update(np.asarray(x, float).tobytes())
            return _fun(x)

        count = [0]

        def cb(xk):
            count[0] += 1
            if count[0] >= 8:
                raise StopIteration

        old = MAIN.TrustRegion
        MAIN.TrustRegion = Rec
        raised = "none"
        try:
            with warnings.catch_warnings(record=True) as wl:
                warnings.simplefilter("always")
                try:
                    if fixedvar:
                        cobyqa.minimize(lambda x: f(x[:2]) + x[2], [0.0, 0.0, 0.5], callback=cb,
                                        bounds=[(-np.inf, np.inf), (-np.inf, np.inf), (0.5, 0.5)],
                                        options=dict(opts), **cons)
                    else:
                        cobyqa.minimize(f, [0.0, 0.0], callback=cb, options=dict(opts), **cons)
                except ValueError:
                    raised = "ValueError"
                except BaseException as ex:
                    raised = type(ex).__name__
                warned = any(issubclass(w.category, RuntimeWarning) and "nknown" in str(w.message) for w in wl)
        finally:
            MAIN.TrustRegion = old
        return raised, cap, seq.hexdigest(), warned

    import io
    import contextlib
    with contextlib.redirect_stdout(io.StringIO()):
        raised, cap, dig, warned = call(options, consts)
        sameseq = True
        if unknown != "none" and raised == "none":
            o2 = {k: v for k, v in options.items() if k != "bogus_option"}
            c2 = {k: v for k, v in consts.items() if k != "bogus_constant"}
            r2, cap2, dig2, w2 = call(o2, c2)
            sameseq = (r2 == "none" and dig2 == dig and cap2.get("o") == {k: v for k, v in cap.get("o", {}).items() if k != "bogus_option"})
    done = {}
    if raised == "none" and cap:
        for k, v in list(cap["o"].items()) + list(cap["c"].items()):
            if k in DEFAULTS:
                done[k] = float(v)
    return {"id": cid, "sup": {k: float(v) for k, v in sup.items()}, "raised": raised, "done": done,
            "unknown": unknown != "none", "warned": bool(warned), "sameseq": bool(sameseq),
            "captured": bool(cap), "cell": [settings, unknown, fixedvar]}


def _encode(recs):
    """order keys shared by each record: supplied, completed, defaults, reference values"""
    out = []
    for r in recs:
        vals = set([0.0, 1.0, float(N + 1), float((N + 1) * (N + 2) // 2)])
        vals.update(r["sup"].values())
        vals.update(r["done"].values())
        vals.update(float(v) for v in DEFAULTS.values())
        order = sorted(vals)
        rank = {v: i for i, v in enumerate(order)}
        out.append({"id": r["id"], "sup": {k: rank[v] for k, v in r["sup"].items()},
                    "done": {k: rank[v] for k, v in r["done"].items()},
                    "dflt": {k: rank[float(v)] for k, v in DEFAULTS.items()},
                    "raised": r["raised"], "unknown": r["unknown"], "warned": r["warned"],
                    "sameseq": r["sameseq"], "k0": rank[0.0], "k1": rank[1.0],
                    "kn1": rank[float(N + 1)], "kmax": rank[float((N + 1) * (N + 2) // 2)]})
    return out


def check(pid, tier):
    t0 = time.time()
    v = Verdict("C19")
    cells = []
    S = universe("singles")
    for s in S:
        for unk in ("none", "option", "constant"):
            for fx in (0, 1):
                cells.append((s, unk, fx))
    C = universe("coupled")
    cells += [(c, "none", fx) for c in C for fx in (0, 1)]
    P = universe("pairs")
    usize = len(cells) + 2 * len(P)
    if tier == "thorough":
        cells += [(c, "none", fx) for c in P for fx in (0, 1)]
    else:
        cells += [(c, "none", i % 2) for i, c in enumerate(corpus.subsample(P, 2500, seed()))]
    cells = [(i + 1, c, u, fx) for i, (c, u, fx) in enumerate(cells)]
    with mp.get_context("fork").Pool(NCPU) as pool:
        recs = pool.map(_run_cell, cells, chunksize=64)
    nocap = [r for r in recs if r["raised"] == "none" and not r["captured"]]
    if nocap:
        raise Machinery(f"completed settings could not be captured for {len(nocap)} cells")
    enc = _encode(recs)
    path = os.path.join(OUT, f"opt-outcomes-{os.getpid()}.json")
    json.dump(enc, open(path, "w"))
    cfg = write_cfg(os.path.join(OUT, f"opt-{os.getpid()}.cfg"), spec="OSpec")
    r = run_tlc("Options", cfg, env={"OUTCOME_FILE": path}, workers=1, tag=f"opt-{os.getpid()}", timeout=3600)
    os.remove(path)
    fails = printed_values(r["out"], "OUTCOME")
    byid = {rr["id"]: rr for rr in recs}
    for cid, clauses in fails:
        rr = byid[cid]
        for c in clauses:
            v.add(c, json.dumps(rr["cell"], sort_keys=True), {"supplied": rr["sup"], "raised": rr["raised"],
                                                                "completed": rr["done"], "warned": rr["warned"],
                                                                "sameseq": rr["sameseq"]})
    nraise = sum(1 for rr in recs if rr["raised"] == "ValueError")
    cov = {"states": r["distinct"], "transitions": r["generated"],
           "traces_validated_against_impl": len(recs),
           "universe_size": usize, "universe_visited": len(recs), "exhaustive": len(recs) == usize,
           "cells_raising_ValueError": nraise, "cells_accepted": len(recs) - nraise,
           "samples": [{"supplied": recs[i]["sup"], "raised": recs[i]["raised"]} for i in (0, len(recs) // 2, len(recs) - 1)]}
    rc = v.finish()
    write_evidence("C19", tier, "model_checking", cov, time.time() - t0, len(v.violations),
                   ["domains, coupling relations and defaults are transcribed from the documentation into spec/Options.tla",
                    "completed settings are observed where minimize hands them to the trust-region framework",
                    "boundary lattice values per setting are fixed in harness/c19.py; n = 2; NaN option values are outside the documented lattice"])
    return rc
