"""C10: equivalent statements of a problem are solved identically.

R  Presolve.tla: the expected internal linear system after eliminating fixed variables and scaling
   (integer data, computed by TLC, residual identity checked by TLC) compared exactly with the
   Problem object minimize builds.
T  pairs of restated runs validated by Pair.tla: Bounds / array, dict / NonlinearConstraint, NaN / inf
   limits, regrouped constraint lists, one two-sided / two one-sided constraints, hand-eliminated
   fixed variables, scale=True / explicitly rescaled problem mapped back.
"""
import json
import multiprocessing as mp
import os
import time

import numpy as np

from . import corpus, pairs
from .common import OUT, Machinery, Verdict, write_evidence, seed, NCPU, tlc_universe

INF = 100000


def _lim(v):
    return -np.inf if v <= -INF else (np.inf if v >= INF else float(v))


def _presolve_chunk(cases):
    os.environ["OPENBLAS_NUM_THREADS"] = "1"
    from .common import import_cobyqa
    cobyqa = import_cobyqa()
    import cobyqa.main as MAIN
    import cobyqa.problem as PB
    from scipy.optimize import Bounds, LinearConstraint
    bad = []
    for ci, c in enumerate(cases):
        bd = c["bd"]
        n = len(bd)
        lb = np.array([b[0] for b in bd], float)
        ub = np.array([b[1] for b in bd], float)
        cons = [LinearConstraint(np.array([r["a"]], float), _lim(r["lb"]), _lim(r["ub"])) for r in c["rows"]]
        if ci % 2 == 1 and len(cons) > 1 and all(True for _ in cons):
            # the same rows given as one object
            cons = [LinearConstraint(np.array([r["a"] for r in c["rows"]], float),
                                     np.array([_lim(r["lb"]) for r in c["rows"]]),
                                     np.array([_lim(r["ub"]) for r in c["rows"]]))]
        x0 = 0.5 * (lb + ub)
        cap = {}

        class Rec(PB.Problem):
            def __init__(self, *a, **k):
                super().__init__(*a, **k)
                cap["pb"] = self
        old = MAIN.Problem
        MAIN.Problem = Rec
        try:
            cobyqa.minimize(lambda z: float(z @ z), x0, bounds=Bounds(lb, ub), constraints=cons,
                            options={"maxfev": 1, "scale": bool(c["sc"])})
            err = None
        except Exception as ex:
            err = f"{type(ex).__name__}: {ex}"
        finally:
            MAIN.Problem = old
        if err:
            bad.append(("C10.raise", c, err))
            continue
        pb = cap["pb"]

        def bag(A, b):
            return sorted((tuple(float(v) for v in row), float(r)) for row, r in zip(np.atleast_2d(A), b))
        exp_ub = sorted((tuple(float(v) for v in row), float(r)) for row, r in c["ub"])
        exp_eq = sorted((tuple(float(v) for v in row), float(r)) for row, r in c["eq"])
        got_ub = bag(pb.linear.a_ub, pb.linear.b_ub) if pb.linear.m_ub else []
        got_eq = bag(pb.linear.a_eq, pb.linear.b_eq) if pb.linear.m_eq else []
        what = None
        if got_ub != exp_ub:
            what = ("C10.linear_ub", {"expected": exp_ub, "got": got_ub})
        elif got_eq != exp_eq:
            what = ("C10.linear_eq", {"expected": exp_eq, "got": got_eq})
        elif list(pb.bounds.xl) != [float(v) for v in c["lo"]] or list(pb.bounds.xu) != [float(v) for v in c["hi"]]:
            what = ("C10.bounds", {"expected": [c["lo"], c["hi"]], "got": [list(pb.bounds.xl), list(pb.bounds.xu)]})
        else:
            # build_x maps internal lattice points to the expected original points
            k = len(c["free"])
            for y in ([0.0] * k, [1.0] * k, [-1.0 if i % 2 else 1.0 for i in range(k)]):
                if not c["sc"]:
                    y = [min(max(v + 0.5 * (c["lo"][i] + c["hi"][i]), c["lo"][i]), c["hi"][i]) for i, v in enumerate(y)]
                x = pb.build_x(np.array(y, float))
                exp = []
                it = iter(y)
                for b in bd:
                    if b[0] == b[1]:
                        exp.append(float(b[0]))
                    else:
                        v = next(it)
                        exp.append(v * (b[1] - b[0]) / 2.0 + (b[1] + b[0]) / 2.0 if c["sc"] else v)
                if list(x) != exp:
                    what = ("C10.build_x", {"internal": y, "expected": exp, "got": list(x)})
                    break
        if what:
            bad.append((what[0], c, what[1]))
    return bad, len(cases)


def presolve(tier, verdict):
    cases = []
    sizes = {}
    for uid, k in (("n2", 800), ("n3", 1500)):
        U = tlc_universe("Presolve", uid, "PInit", "PNext")
        sizes[uid] = len(U)
        if tier != "thorough" and len(U) > k:
            rng = np.random.RandomState(seed() + len(U))
            U = [U[i] for i in sorted(rng.choice(len(U), size=k, replace=False).tolist())]
        cases += U
    n = max(1, len(cases) // (4 * NCPU))
    nrep = 0
    with mp.get_context("fork").Pool(NCPU) as pool:
        for bad, kk in pool.imap_unordered(_presolve_chunk, [cases[i:i + n] for i in range(0, len(cases), n)]):
            nrep += kk
            for clause, c, det in bad:
                small = {k: c[k] for k in ("bd", "rows", "sc")}
                verdict.add(clause, json.dumps(small, sort_keys=True), {"case": small, "detail": det})
    return {"presolve_cases_replayed": nrep, "presolve_universe": sizes, "samples": [cases[0]]}


# ------------------------------------------------------------------ restatement pairs
def _restate(kind, d, p):
    """p: built problem (corpus.build). Returns (args_b, map_b) or None if not applicable.
    map_b maps a point of run b to the user space of run a."""
    from scipy.optimize import Bounds, LinearConstraint, NonlinearConstraint
    b = dict(p)
    ident = lambda x: x
    lb, ub = None, None
    if p["bounds"] is not None:
        if hasattr(p["bounds"], "lb"):
            lb, ub = np.array(p["bounds"].lb, float), np.array(p["bounds"].ub, float)
        else:
            a = np.asarray(p["bounds"], float)
            lb, ub = a[:, 0].copy(), a[:, 1].copy()
    cons = p["constraints"]
    cons = [cons] if not isinstance(cons, (list, tuple)) else list(cons)
    if kind == "bounds_form":
        if lb is None:
            return None
        b["bounds"] = np.column_stack([lb, ub]) if hasattr(p["bounds"], "lb") else Bounds(lb, ub)
        return b, ident, True
    if kind == "nan_inf":
        if lb is None:
            return None
        b["bounds"] = Bounds(np.where(np.isfinite(lb), lb, np.nan), np.where(np.isfinite(ub), ub, np.nan))
        new = []
        for c in cons:
            if isinstance(c, NonlinearConstraint):
                l = np.atleast_1d(np.asarray(c.lb, float)); u = np.atleast_1d(np.asarray(c.ub, float))
                new.append(NonlinearConstraint(c.fun, np.where(np.isfinite(l), l, np.nan), np.where(np.isfinite(u), u, np.nan)))
            elif isinstance(c, LinearConstraint):
                l = np.atleast_1d(np.asarray(c.lb, float)); u = np.atleast_1d(np.asarray(c.ub, float))
                new.append(LinearConstraint(c.A, np.where(np.isfinite(l), l, np.nan), np.where(np.isfinite(u), u, np.nan)))
            else:
                new.append(c)
        b["constraints"] = new
        return b, ident, True
    if kind == "dict_nlc":
        new = []
        changed = False
        for c in cons:
            if isinstance(c, dict):
                args = tuple(c.get("args", ()))
                new.append(NonlinearConstraint(lambda x, f=c["fun"], a=args: f(x, *a), 0.0, 0.0 if c["type"] == "eq" else np.inf))
                changed = True
            elif isinstance(c, NonlinearConstraint) and np.ndim(c.lb) == 0 and np.ndim(c.ub) == 0 and float(c.lb) == -np.inf and np.isfinite(c.ub):
                u = float(c.ub)
                new.append({"type": "ineq", "fun": (lambda x, f=c.fun, u=u: u - f(x))})
                changed = True
            else:
                new.append(c)
        if not changed:
            return None
        b["constraints"] = new
        # u - f(x) >= 0 is the same constraint but not the same arithmetic: banded
        exact = all(not (isinstance(c, NonlinearConstraint)) for c in cons)
        return b, ident, exact
    if kind == "split":
        new = []
        changed = False
        for c in cons:
            if isinstance(c, LinearConstraint):
                l = np.atleast_1d(np.asarray(c.lb, float)); u = np.atleast_1d(np.asarray(c.ub, float))
                if np.all(np.isfinite(l)) and np.all(np.isfinite(u)) and np.all(l < u):
                    new.append(LinearConstraint(c.A, -np.inf, u))
                    new.append(LinearConstraint(c.A, l, np.inf))
                    changed = True
                    continue
            if isinstance(c, NonlinearConstraint):
                l = np.atleast_1d(np.asarray(c.lb, float)); u = np.atleast_1d(np.asarray(c.ub, float))
                if np.all(np.isfinite(l)) and np.all(np.isfinite(u)) and np.all(l < u):
                    # lower side first: the order in which the solver lists the two sides of a
                    # two-sided nonlinear constraint ("without reordering them")
                    new.append(NonlinearConstraint(c.fun, l, np.inf))
                    new.append(NonlinearConstraint(c.fun, -np.inf, u))
                    changed = True
                    continue
            new.append(c)
        if not changed:
            return None
        b["constraints"] = new
        return b, ident, False
    if kind == "regroup":
        lin = [c for c in cons if isinstance(c, LinearConstraint)]
        if not lin:
            return None
        # the same rows in the same order, one row per object, the other constraints after them as before
        new = []
        for c in cons:
            if isinstance(c, LinearConstraint):
                A = np.atleast_2d(np.asarray(c.A, float))
                l = np.broadcast_to(np.atleast_1d(np.asarray(c.lb, float)), (A.shape[0],))
                u = np.broadcast_to(np.atleast_1d(np.asarray(c.ub, float)), (A.shape[0],))
                for i in range(A.shape[0]):
                    new.append(LinearConstraint(A[i:i + 1], l[i], u[i]))
            else:
                new.append(c)
        new = new + []
        if len(new) == len(cons):
            # a single row: wrap the list differently (tuple instead of list)
            b["constraints"] = tuple(new)
        else:
            b["constraints"] = new
        return b, ident, False
    if kind == "hand_fixed":
        if lb is None or not np.any(lb == ub) or np.all(lb == ub):
            return None
        fixed = lb == ub
        free = ~fixed
        xf = lb[fixed]

        def full(y):
            x = np.empty(lb.size)
            x[fixed] = xf
            x[free] = y
            return x
        f0 = p["fun"]
        b["fun"] = (None if f0 is None else (lambda y: f0(full(y))))
        if f0 is not None:
            b["fun"].__name__ = getattr(f0, "__name__", "fun")
        b["x0"] = np.asarray(p["x0"], float)[free]
        b["bounds"] = Bounds(lb[free], ub[free])
        new = []
        for c in cons:
            if isinstance(c, LinearConstraint):
                A = np.atleast_2d(np.asarray(c.A, float))
                shift = A[:, fixed] @ xf
                new.append(LinearConstraint(A[:, free], np.asarray(c.lb, float) - shift, np.asarray(c.ub, float) - shift))
            elif isinstance(c, NonlinearConstraint):
                new.append(NonlinearConstraint(lambda y, f=c.fun: f(full(y)), c.lb, c.ub))
            elif isinstance(c, dict):
                dd = dict(c)
                dd["fun"] = (lambda y, *a, f=c["fun"]: f(full(y), *a))
                new.append(dd)
        b["constraints"] = new
        return b, full, False
    if kind == "scale":
        if lb is None or not p["options"].get("scale") or not (np.all(np.isfinite(lb)) and np.all(np.isfinite(ub))) or np.any(lb >= ub):
            return None
        fac = 0.5 * (ub - lb)
        sh = 0.5 * (ub + lb)
        T = lambda y: np.clip(np.asarray(y, float) * fac + sh, lb, ub)
        f0 = p["fun"]
        b["fun"] = (None if f0 is None else (lambda y: f0(T(y))))
        if f0 is not None:
            b["fun"].__name__ = getattr(f0, "__name__", "fun")
        b["x0"] = (np.clip(np.asarray(p["x0"], float), lb, ub) - sh) / fac
        b["bounds"] = Bounds(-np.ones(lb.size), np.ones(lb.size))
        new = []
        for c in cons:
            if isinstance(c, LinearConstraint):
                A = np.atleast_2d(np.asarray(c.A, float))
                s = A @ sh
                new.append(LinearConstraint(A @ np.diag(fac), np.asarray(c.lb, float) - s, np.asarray(c.ub, float) - s))
            elif isinstance(c, NonlinearConstraint):
                new.append(NonlinearConstraint(lambda y, f=c.fun: f(T(y)), c.lb, c.ub))
            elif isinstance(c, dict):
                dd = dict(c)
                dd["fun"] = (lambda y, *a, f=c["fun"]: f(T(y), *a))
                new.append(dd)
        b["constraints"] = new
        o = dict(p["options"])
        o["scale"] = False
        b["options"] = o
        return b, T, False
    raise ValueError(kind)


KINDS = ("bounds_form", "nan_inf", "dict_nlc", "split", "regroup", "hand_fixed", "scale")


def _pair_job(args):
    os.environ["OPENBLAS_NUM_THREADS"] = "1"
    d, kind = args
    from . import recorder
    p = corpus.build(d)
    r = _restate(kind, d, p)
    if r is None:
        return None
    b, mapb, exact = r
    ta = recorder.record_call(p["fun"], p["x0"], bounds=p["bounds"], constraints=p["constraints"],
                              callback=None, options=p["options"], constants=p.get("constants"), meta=p["meta"])
    tb = recorder.record_call(b["fun"], b["x0"], bounds=b["bounds"], constraints=b["constraints"],
                              callback=None, options=b["options"], constants=b.get("constants"), meta=p["meta"])
    A = pairs.project({"ev": ta["ev"]})
    B = pairs.project({"ev": tb["ev"]})
    for s in B["steps"]:
        s["x"] = [float(v) for v in mapb(np.array(s["x"], float))]
    if B["res"]["x"]:
        B["res"]["x"] = [float(v) for v in mapb(np.array(B["res"]["x"], float))]
    return dict(a=A, b=B, exact=exact, band=1e-9, prop="C10", pure=True, mode=kind, did=p["meta"]["did"], d=d)


def check(pid, tier):
    t0 = time.time()
    v = Verdict("C10")
    pre = presolve(tier, v)
    U = corpus.enumerate_universe("C10")
    k = 160 if tier == "quick" else len(U)
    S = corpus.subsample(U, k, seed())
    jobs = [(d, kind) for d in S for kind in KINDS]
    with mp.get_context("fork").Pool(NCPU) as pool:
        res = pool.map(_pair_job, jobs, chunksize=4)
    prs = [r for r in res if r is not None]
    fails, stats = pairs.validate(prs, f"c10-{os.getpid()}")
    from collections import Counter
    modes = Counter(p["mode"] for p in prs)
    cc = Counter()
    for i, (clauses, first) in fails.items():
        p = prs[i]
        for c in clauses:
            cc[c + "@" + p["mode"]] += 1
            v.add(c, p["did"] + ":" + p["mode"], {"restatement": p["mode"], "descriptor": p["d"],
                                                     "first_differing_evaluation": first,
                                                     "result_a": p["a"]["res"], "result_b": p["b"]["res"]})
    cov = {"states": stats["states"] + pre["presolve_cases_replayed"], "transitions": stats["transitions"],
           "traces_validated_against_impl": 2 * len(prs) + pre["presolve_cases_replayed"],
           "pairs": len(prs), "pairs_per_restatement": dict(modes), "universe_size": len(U) * len(KINDS),
           "universe_visited": len(jobs), "exhaustive": len(S) == len(U), "failed_clauses": dict(cc),
           "presolve": {k2: pre[k2] for k2 in ("presolve_cases_replayed", "presolve_universe")},
           "samples": [{"descriptor": S[0]}] + pre["samples"]}
    rc = v.finish()
    write_evidence("C10", tier, "model_checking", cov, time.time() - t0, len(v.violations),
                   ["Bounds/array, NaN/inf limits and dict->NonlinearConstraint pairs must be bit-identical; split / regrouped constraints, hand-eliminated fixed variables and scale=True vs the explicitly rescaled problem are compared within a relative band of 1e-9 per coordinate (the internal row order / affine map differ by rounding)",
                    "the expected presolved linear system is computed by TLC (Presolve.tla) on integer data with even bound widths and compared exactly as a multiset of rows",
                    "restatements are constructed by the harness (harness/c10.py)"])
    return rc
