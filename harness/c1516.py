"""C15 / C16: the subproblem solvers on the degeneracy classes of spec/Subproblem.tla.

TLC enumerates the instances (small integers, power-of-two scales) together with what is exactly
computable on them (Improvable, projected-gradient Cauchy decrease); the harness calls the five
real solvers, measures norms / model values / residuals and returns them as order keys; TLC
decides every clause (Subproblem.tla, FailedCall)."""
import json
import math
import multiprocessing as mp
import os
import subprocess
import time
from fractions import Fraction as Fr

import numpy as np

from . import checks, corpus
from .common import OUT, SPEC, Machinery, Verdict, run_tlc, write_cfg, write_evidence, seed, NCPU, printed_values

EPS = np.finfo(float).eps
INF = 100000
NAN_KEY = -1000000


def universe(uid):
    from .common import tlc_universe
    empty = os.path.join(OUT, "sub-empty.json")
    with open(empty, "w") as fh:
        fh.write("[]")
    return tlc_universe("Subproblem", uid, "OInit", "ONext", extra_env={"OUTCOME_FILE": empty})


def _rows(inst, L):
    n = inst["n"]
    a = np.array([1.0, 2.0, -1.0][:n])
    b = np.array([1.0, -1.0, 0.0][:n])
    k = inst["rows"]
    if k == "explicit":
        aub = np.array(inst["xaub"], float).reshape(-1, n)
        bub = np.array(inst["xbub2"], float) / 2.0 * L
        aeq = np.array(inst["xaeq"], float).reshape(-1, n)
        beq = np.array(inst["xbeq2"], float) / 2.0 * L
        return aub, bub, aeq, beq
    if k == "none":
        aub, bub = np.zeros((0, n)), np.zeros(0)
    elif k == "inactive":
        aub, bub = np.array([a]), np.array([4.0 * L])
    elif k == "active":
        aub, bub = np.array([a]), np.array([0.0])
    elif k == "dup":
        aub, bub = np.array([a, a]), np.array([0.0, 0.0])
    elif k == "parallel":
        aub, bub = np.array([a, 2.0 * a]), np.array([0.0, 1.0 * L])
    elif k == "rankdef":
        aub, bub = np.array([a, b, a + b]), np.array([0.0, 0.0, 0.0])
    elif k == "tie":             # a row that is reached exactly on the trust-region boundary
        dl = inst["delta"] / float(inst.get("unit", 8)) * L
        aub, bub = np.array([[1.0] * n, [1.0 if i == 0 else 0.0 for i in range(n)]]), np.array([dl, dl])
    elif k == "poly":
        r1 = np.array([-1.0, -1.0, 1.0][:n])
        r2 = np.array([0.0, 1.0, 1.0][:n]) if n > 2 else np.array([0.0, 1.0][:n])
        aub, bub = np.array([r1, r2]), np.array([1.0 * L, 1.0 * L])
    elif k == "wedge":
        r1 = np.array([1.0, 1.0, 0.0][:n])
        r2 = np.array([-1.0, 2.0, 1.0][:n])
        aub, bub = np.array([r1, r2, a]), np.array([0.5 * L, 1.0 * L, 2.0 * L])
    elif k == "violated":
        aub, bub = np.array([a, -b]), np.array([-1.0 * L, 2.0 * L])
    else:
        raise ValueError(k)
    c = np.array([1.0, 0.0, 1.0][:n])
    e = inst["eqs"]
    if e == "none":
        aeq, beq = np.zeros((0, n)), np.zeros(0)
    elif e == "one":
        aeq, beq = np.array([c]), np.array([1.0 * L])
    elif e == "dup":
        aeq, beq = np.array([c, c]), np.array([1.0 * L, 1.0 * L])
    else:
        raise ValueError(e)
    return aub, bub, aeq, beq


def _calls(inst):
    """Run the solvers on one instance; return raw outcome records (floats).
    inst["only"] (optional) restricts the solvers: "tan", "geo" or "nrm"."""
    from cobyqa.subsolvers import (tangential_byrd_omojokun, constrained_tangential_byrd_omojokun,
                                   normal_byrd_omojokun, cauchy_geometry, spider_geometry)
    n = inst["n"]
    L = 2.0 ** inst["sc"]
    unit = float(inst.get("unit", 8))
    explicit = inst["hk"] == "explicit"
    g = np.array(inst["g"], float) / (4.0 if explicit else 1.0)
    H = np.array(inst["H"], float) / (4.0 if explicit else 1.0) / L
    xl = np.array([(-np.inf if b[0] <= -INF else b[0] / unit * L) for b in inst["bd"]])
    xu = np.array([(np.inf if b[1] >= INF else b[1] / unit * L) for b in inst["bd"]])
    delta = inst["delta"] / unit * L
    aub, bub, aeq, beq = _rows(inst, L)
    hp = lambda v: H @ v
    curv = lambda v: float(v @ H @ v)
    q = lambda s: float(g @ s + 0.5 * s @ H @ s)
    out = []

    def rec(fn, kind, s, exc, q0, qs, band, ineq=(), ineqHi=(), eq=(), eqHi=(), dec=None, cauchy=None):
        s = np.zeros(n) if s is None else np.asarray(s, float)
        out.append(dict(fn=fn, kind=kind, s=list(s), xl=list(np.minimum(xl, 0.0)), xu=list(np.maximum(xu, 0.0)),
                        norm=float(np.linalg.norm(s)), deltaHi=delta * (1.0 + 1e-9),
                        q0Lo=q0 - band, q0Hi=q0 + band, qs=qs, ineq=list(ineq), ineqHi=list(ineqHi),
                        eq=list(eq), eqHi=list(eqHi), dec=(float("nan") if dec is None else dec),
                        cauchyLo=(float("nan") if cauchy is None else cauchy),
                        improvable=bool(inst["improvable"]), exc=exc))

    def band_q(s):
        s = np.asarray(s, float)
        return 64.0 * EPS * (float(np.abs(g) @ np.abs(s)) + 0.5 * float(np.abs(s) @ np.abs(H) @ np.abs(s))) + 1e-300

    kw = {"improve_tcg": bool(inst["tcg"])}
    only = inst.get("only")
    cau = None
    if inst["cauchy"][0] >= 0 and inst["rows"] == "none" and inst["eqs"] == "none":
        cau = float(Fr(inst["cauchy"][0], inst["cauchy"][1])) * L
    # 1. bound-constrained tangential step
    if inst["rows"] == "none" and inst["eqs"] == "none" and only in (None, "tan"):
        try:
            s = tangential_byrd_omojokun(g, hp, xl.copy(), xu.copy(), delta, False, **kw)
            b = band_q(s)
            rec("tangential", "min", s, "none", 0.0, q(s), b, dec=-q(s),
                cauchy=(None if cau is None else cau * (1.0 - 1e-9) - b))
        except Exception as ex:
            rec("tangential", "min", None, type(ex).__name__, 0.0, 0.0, 0.0)
    # 2. linearly constrained tangential step (origin feasible: bub >= 0)
    try:
        if only not in (None, "tan"):
            raise StopIteration
        bub0 = np.maximum(bub, 0.0)
        s = constrained_tangential_byrd_omojokun(g, hp, xl.copy(), xu.copy(), aub, bub0, aeq, delta, False, **kw)
        b = band_q(s)
        ns = float(np.linalg.norm(s))
        ri = aub @ s - bub0
        rh = 64.0 * EPS * (np.abs(aub) @ np.abs(s) + np.abs(bub0)) + 1e-9 * np.linalg.norm(aub, axis=1) * ns if aub.size else np.zeros(0)
        re_ = np.abs(aeq @ s)
        eh = 1e-9 * np.linalg.norm(aeq, axis=1) * ns + 64.0 * EPS * (np.abs(aeq) @ np.abs(s)) if aeq.size else np.zeros(0)
        rec("constrained_tangential", "min", s, "none", 0.0, q(s), b, ineq=ri, ineqHi=rh, eq=re_, eqHi=eh)
    except StopIteration:
        pass
    except Exception as ex:
        rec("constrained_tangential", "min", None, type(ex).__name__, 0.0, 0.0, 0.0)
    # 3. normal step
    if (inst["rows"] != "none" or inst["eqs"] != "none") and only in (None, "nrm"):
        def viol(s):
            return math.sqrt(float(np.sum(np.maximum(aub @ s - bub, 0.0) ** 2) + np.sum((aeq @ s - beq) ** 2)))
        try:
            s = normal_byrd_omojokun(aub, bub, aeq, beq, xl.copy(), xu.copy(), delta, False, **kw)
            v0 = viol(np.zeros(n))
            b = 64.0 * EPS * (v0 + float(np.linalg.norm(aub) + np.linalg.norm(aeq)) * float(np.linalg.norm(s))) + 1e-300
            rec("normal", "min", s, "none", v0, viol(s), b)
        except Exception as ex:
            rec("normal", "min", None, type(ex).__name__, 0.0, 0.0, 0.0)
    # 4./5. geometry steps (only meaningful without general constraints)
    if inst["rows"] == "none" and inst["eqs"] == "none" and only in (None, "geo"):
        gconsts = (0.0, 0.5 * L) if not explicit else (0.0, inst.get("c4", 0) / 4.0)
        for const in gconsts:
            try:
                s = cauchy_geometry(const, g, curv, xl.copy(), xu.copy(), delta, False)
                b = band_q(s)
                if const == 0.0:
                    rec("cauchy_geometry", "max", s, "none", 0.0, abs(q(s)), b)
                else:
                    rec("cauchy_geometry_c", "max", s, "none", abs(const), abs(const + q(s)), b + 4 * EPS * abs(const))
            except Exception as ex:
                rec("cauchy_geometry", "max", None, type(ex).__name__, 0.0, 0.0, 0.0)
        xpt = np.array([[1.0 if i == j else 0.0 for j in range(n)] for i in range(n)]) * L
        extra = np.array([[1.0] * n, [(-2.0 if i == 0 else 1.0) for i in range(n)]]).T * L
        xpt = np.hstack([xpt, extra])
        sconsts = (0.0, 1.0 * L, -0.5 * L) if not explicit else (0.0, inst.get("c4", 0) / 4.0)
        for const in sconsts:
            try:
                s = spider_geometry(const, g, curv, xpt, xl.copy(), xu.copy(), delta, False)
                if const == 0.0:
                    rec("spider_geometry", "max", s, "none", 0.0, abs(q(s)), band_q(s))
                else:
                    rec("spider_geometry_c", "max", s, "none", abs(const), abs(const + q(s)), band_q(s) + 4 * EPS * abs(const))
            except Exception as ex:
                rec("spider_geometry", "max", None, type(ex).__name__, 0.0, 0.0, 0.0)
    return out


def _encode(r, rid):
    """one outcome record -> order keys (one key space per record)"""
    vals = set()

    def add(v):
        if isinstance(v, (list, tuple)):
            for t in v:
                add(t)
        else:
            f = float(v)
            if not math.isnan(f):
                vals.add(f + 0.0)
    floats = ("s", "xl", "xu", "norm", "deltaHi", "q0Lo", "q0Hi", "qs", "ineq", "ineqHi", "eq", "eqHi", "dec", "cauchyLo")
    for k in floats:
        add(r[k])
    rank = {v: i for i, v in enumerate(sorted(vals))}

    def key(v):
        if isinstance(v, (list, tuple)):
            return [key(t) for t in v]
        f = float(v)
        return NAN_KEY if math.isnan(f) else rank[f + 0.0]
    e = {k: key(r[k]) for k in floats}
    e.update(id=rid, fn=r["fn"], kind=r["kind"], exc=r["exc"], improvable=r["improvable"])
    return e


def _chunk(insts):
    os.environ["OPENBLAS_NUM_THREADS"] = "1"
    from .common import import_cobyqa
    import_cobyqa()
    import warnings
    out = []
    with warnings.catch_warnings():
        warnings.simplefilter("ignore")
        with np.errstate(all="ignore"):
            for ii, inst in insts:
                for r in _calls(inst):
                    out.append((ii, r))
    return out


def run_universe(tier):
    insts = []
    sizes = {}
    plan = (("bd1", 400, None), ("bd2", 800, None), ("bd2s", 300, None), ("bd3", 500, None), ("lin2", 800, None),
            ("lin3", 500, None), ("lin2t", 10 ** 9, "tan"), ("lin2p", 800, "tan"), ("lin3p", 1200, "tan"), ("bd3r", 1500, "tan"),
            ("nrm2", 1500, "nrm"), ("geo", 1200, "geo"),
            # the randomly drawn instances are cheap and catch rare numerical paths: all of them, every time
            ("rndt", 10 ** 9, "tan"), ("rndc", 10 ** 9, "tan"), ("rndg", 10 ** 9, "geo"), ("rndn", 10 ** 9, "nrm"))
    for uid, kq, only in plan:
        U = universe(uid)
        sizes[uid] = len(U)
        if tier != "thorough" and len(U) > kq:
            rng = np.random.RandomState(seed() + len(uid) + len(U))
            idx = sorted(rng.choice(len(U), size=kq, replace=False).tolist())
            U = [U[i] for i in idx]
        if only:
            U = [dict(u, only=only) for u in U]
        insts += U
    items = list(enumerate(insts))
    n = max(1, len(items) // (4 * NCPU))
    recs = []
    with mp.get_context("fork").Pool(NCPU) as pool:
        for part in pool.imap_unordered(_chunk, [items[i:i + n] for i in range(0, len(items), n)]):
            recs += part
    return insts, recs, sizes


def validate(recs, tag):
    enc = [_encode(r, i + 1) for i, (ii, r) in enumerate(recs)]
    fails = {}
    states = 0
    for c in range(0, len(enc), 40000):
        path = os.path.join(OUT, f"sub-outcomes-{tag}-{c}.json")
        json.dump(enc[c:c + 40000], open(path, "w"))
        cfg = write_cfg(os.path.join(OUT, f"sub-{tag}.cfg"), spec="OSpec")
        r = run_tlc("Subproblem", cfg, env={"OUTCOME_FILE": path}, workers=1, tag=f"sub-{tag}", timeout=3600)
        os.remove(path)
        states += r["distinct"]
        for rid, clauses in printed_values(r["out"], "OUTCOME"):
            fails[rid] = clauses
    return fails, states


def _real_run_calls(tier, insts, recs):
    """Record real runs with the 'sub' event family and append every solver call they made."""
    from . import lifecycle
    U = corpus.enumerate_universe("Runs")
    S = corpus.subsample(U, 240 if tier == "quick" else 1500, seed() + 5)
    traces, _ = lifecycle.record(S, want=("sub",))
    n = 0
    bad = [e["what"] for t in traces for e in t.get("ev", []) if e["e"] == "RecErr"]
    if bad or any(t.get("hdr") is None for t in traces):
        raise Machinery(f"the recorder failed while observing solver calls: {bad[:3]}")
    for d, t in zip(S, traces):
        if t.get("hdr") is None:
            continue
        for r in t.get("sub", []):
            insts.append({"n": len(r["s"]), "g": [], "bp": ["run"], "hk": "run", "delta": 0, "sc": 0, "tcg": True,
                          "rows": "run", "eqs": "run", "cauchy": [-1, 1], "improvable": r["improvable"],
                          "descriptor": d})
            recs.append((len(insts) - 1, r))
            n += 1
    return n


def _shared(tier):
    """C15 and C16 are decided on the same calls: the (instances, outcomes, verdicts of TLC) are kept
    under out/cache keyed by the CONTENT of the tree under test, the specification, the tier and the
    seed, so the second of the two checks does not repeat the work on an unchanged tree."""
    import hashlib
    import pickle
    from .common import tree_digest, CACHE
    hs = hashlib.sha256()
    for f in ("Subproblem.tla",):
        hs.update(open(os.path.join(SPEC, f), "rb").read())
    hs.update(open(__file__, "rb").read())
    key = f"sub-{tree_digest()}-{hs.hexdigest()[:12]}-{tier}-{seed()}.pkl"
    path = os.path.join(CACHE, key)
    if os.path.exists(path) and time.time() - os.path.getmtime(path) < 6 * 3600:
        with open(path, "rb") as fh:
            return pickle.load(fh) + (True,)
    insts, recs, sizes = run_universe(tier)
    # the same clauses on the calls the framework makes during real runs (arbitrary float data)
    nsub = _real_run_calls(tier, insts, recs)
    sizes["calls_in_recorded_runs"] = nsub
    fails, states = validate(recs, f"sub-{os.getpid()}")
    try:
        with open(path, "wb") as fh:
            pickle.dump((insts, recs, sizes, fails, states), fh)
    except Exception:
        pass
    return insts, recs, sizes, fails, states, False


def check(pid, tier):
    t0 = time.time()
    v = Verdict(pid)
    insts, recs, sizes, fails, states, cached = _shared(tier)
    nfn = {}
    for ii, r in recs:
        nfn[r["fn"]] = nfn.get(r["fn"], 0) + 1
    from collections import Counter
    cc = Counter()
    for rid, clauses in fails.items():
        for c in clauses:
            cc[c] += 1
    for rid, clauses in fails.items():
        ii, r = recs[rid - 1]
        inst = insts[ii]
        for c in clauses:
            if c.startswith(pid):
                small = {k: inst[k] for k in ("n", "g", "bp", "hk", "delta", "sc", "tcg", "rows", "eqs")}
                if "descriptor" in inst:
                    small = {"call_in_recorded_run": inst["descriptor"], "fn": r["fn"]}
                if inst["hk"] == "explicit" or inst["rows"] == "explicit":
                    small.update({k: inst[k] for k in ("H", "bd", "c4", "unit", "xaub", "xbub2", "xaeq", "xbeq2") if k in inst})
                v.add(c, json.dumps(small, sort_keys=True), {"instance": small, "call": {k: r[k] for k in ("fn", "s", "norm", "deltaHi", "q0Lo", "q0Hi", "qs", "dec", "cauchyLo", "exc")}})
            else:
                v.note("other:" + c[:3])
    usize = sum(sizes.values())
    cov = {"states": states, "transitions": states, "traces_validated_against_impl": len(recs),
           "universe_size": usize, "universe_visited": len(insts), "exhaustive": len(insts) == usize,
           "universes": sizes, "calls_per_solver": nfn, "shared_with_sibling_check_via_tree_digest_cache": cached, "failed_clauses_all_properties": dict(cc),
           "with_exact_cauchy_oracle": sum(1 for i in insts if i["cauchy"][0] >= 0),
           "improvable_instances": sum(1 for i in insts if i["improvable"]),
           "samples": [{k: insts[j][k] for k in ("n", "g", "bp", "hk", "delta", "sc", "tcg", "rows", "eqs", "cauchy", "improvable")} for j in (0, 1)]}
    rc = v.finish()
    write_evidence(pid, tier, "model_checking", cov, time.time() - t0, len(v.violations),
                   ["instances, the sign-pattern predicate Improvable and the exact projected-gradient Cauchy decrease are computed by TLC (Subproblem.tla) on integer data",
                    "norms, model values and residuals of the returned steps are computed by the harness (float64) and compared by TLC as order keys; bands: 1e-9 relative on the radius, 64 eps on model values, 1e-9 |A||s| on residuals",
                    "n <= 3; lengths over 2^-20..2^20, radii from 1/8 to 128 box units; the Cauchy clause uses the first-segment projected-gradient step (DESIGN 5/C16)"])
    return rc
