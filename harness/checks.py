"""Property checks: dispatch, verdicts, evidence.  Usage: bin/check Cxx --tier quick|thorough"""
import argparse
import json
import os
import sys
import time
from collections import Counter

from . import common
from .common import Machinery, Verdict, write_evidence, seed

ASSUME_T = [
    "recorder (harness/recorder.py): spies and wrappers observe the calls faithfully; events are emitted after the wrapped call",
    "order keys are an order isomorphism of IEEE doubles (harness/keys.py)",
    "true constraint violation, merit values and rounding bands are computed by harness/truth.py and the recorder (DESIGN 2.4)",
    "TLC 1.8 evaluates spec/CobyqaCore.tla clauses correctly",
    "the corpus universe (spec/Corpus.tla) is finite: runs outside it are not covered",
]

# property -> (universe id, quick sample size, optional event families)
LIFE = {
    "C01": ("C01", 400, ()),
    "C02": ("C02", 320, ()),
    "C05": ("C05", 400, ()),
    "C06": ("C06", 320, ()),
    "C07": ("C07", 800, ()),
    "C08": ("C08", 1000, ()),
    "C09": ("C09", 800, ()),
    "C20": ("C20", 320, ()),
}


def _tier_descs(uid, k, tier):
    from . import corpus
    U = corpus.enumerate_universe(uid)
    if tier == "thorough":
        return U, len(U)
    if tier == "quick4":          # a larger sample for universes too big to visit whole every time
        k = 4 * k
    return corpus.subsample(U, k, seed()), len(U)


def trace_part(pid, uid, k, want, tier, verdict, extra_prefixes=()):
    """Record the universe (or a sample) and validate; returns coverage dict."""
    from . import lifecycle
    descs, usize = _tier_descs(uid, k, tier)
    traces, wrec = lifecycle.record(descs, want=want)
    bad = [t for t in traces if t["hdr"] is None]
    if bad:
        raise Machinery(f"recorder failed on {len(bad)} runs, e.g. {bad[0].get('err')} ({bad[0].get('did')})")
    recerr = Counter(e["what"] for t in traces for e in t["ev"] if e["e"] == "RecErr")
    if recerr:
        raise Machinery(f"the recorder failed to observe some events: {dict(recerr)}")
    per, stats = lifecycle.validate(traces, f"{pid}-{os.getpid()}")
    prefixes = (pid,) + tuple(extra_prefixes)
    nontrivial = set()
    clause_count = Counter()
    ends = Counter()
    sites = Counter()
    kinds = Counter()
    samples = []
    for d, t, p in zip(descs, traces, per):
        did = t["hdr"]["meta"]["did"]
        last = t["ev"][-1] if t["ev"] else {}
        ends[f"{last.get('e')}:{last.get('status', last.get('type'))}"] += 1
        if p["nev"] >= 1:
            nontrivial.add(did)
        for e in t["ev"]:
            kinds[e["e"]] += 1
            if e["e"] == "EE" and e.get("completed"):
                sites[e["site"]] += 1
        for (c, l) in sorted(set(p["viol"])):
            if c[:3] in prefixes:
                clause_count[c] += 1
                verdict.add(c.split("@")[0], did, {"descriptor": d, "event_index": l,
                                                   "event": _ev_summary(t, l), "clause": c})
            else:
                verdict.note("other:" + c[:3])
        if len(samples) < 3:
            samples.append({"descriptor": d, "evaluations": p["nev"], "iterations": p["nit"],
                            "events": p["nevents"], "end": f"{last.get('e')}:{last.get('status', last.get('type'))}"})
    cov = {
        "states": stats["states"], "transitions": stats["transitions"],
        "traces_validated_against_impl": len(traces),
        "universe_size": usize, "universe_visited": len(descs), "exhaustive": len(descs) == usize,
        "distinct_nontrivial_runs": len(nontrivial),
        "ends": dict(ends), "failed_clauses": dict(clause_count),
        "events_consumed_by_kind": dict(kinds), "evaluations_by_site": dict(sites),
        "record_wall_s": round(wrec, 1), "tlc_wall_s": round(stats["wall"], 1),
        "samples": samples,
    }
    return cov


def _ev_summary(t, l):
    try:
        e = t["ev"][l - 1]
        return {k: (float(v) if isinstance(v, float) else v) for k, v in e.items()
                if k in ("e", "site", "j", "status", "nfev", "nit", "type", "exc", "conv", "raised", "k", "what")}
    except Exception:
        return {}


def check_life(pid, tier):
    t0 = time.time()
    uid, k, want = LIFE[pid]
    v = Verdict(pid)
    cov = trace_part(pid, uid, k, want, tier, v)
    from . import design
    dcov = design.check(pid, tier)
    cov["design"] = dcov
    cov["states"] += dcov.get("states", 0)
    cov["transitions"] += dcov.get("transitions", 0)
    rc = v.finish()
    cov["other_property_clauses_seen"] = v.diag
    write_evidence(pid, tier, "model_checking", cov, time.time() - t0, len(v.violations), ASSUME_T)
    return rc


REGISTRY = {p: check_life for p in LIFE}


def _c03(pid, tier):
    from . import c03
    return c03.check(pid, tier)


REGISTRY["C03"] = _c03


def _c19(pid, tier):
    from . import c19
    return c19.check(pid, tier)


REGISTRY["C19"] = _c19


def _c17(pid, tier):
    from . import c17
    return c17.check(pid, tier)


REGISTRY["C17"] = _c17


def _c18(pid, tier):
    from . import c18
    return c18.check(pid, tier)


REGISTRY["C18"] = _c18


def _c1314(pid, tier):
    from . import c1314
    return c1314.check(pid, tier)


def _c1516(pid, tier):
    from . import c1516
    return c1516.check(pid, tier)


def _c12(pid, tier):
    from . import c12
    return c12.check(pid, tier)


def _c04(pid, tier):
    from . import c04
    return c04.check(pid, tier)


def _c11(pid, tier):
    from . import c11
    return c11.check(pid, tier)


def _c10(pid, tier):
    from . import c10
    return c10.check(pid, tier)


REGISTRY["C10"] = _c10
REGISTRY["C11"] = _c11
REGISTRY["C04"] = _c04
REGISTRY["C12"] = _c12
REGISTRY["C15"] = _c1516
REGISTRY["C16"] = _c1516
REGISTRY["C13"] = _c1314
REGISTRY["C14"] = _c1314


def main(argv=None):
    ap = argparse.ArgumentParser()
    ap.add_argument("pid")
    ap.add_argument("--tier", default=os.environ.get("VERIF_TIER", "quick"))
    ap.add_argument("--replay", default=None)
    a = ap.parse_args(argv)
    if a.replay:
        from . import replay
        return replay.run(a.pid, a.replay)
    try:
        common.import_cobyqa()
        fn = REGISTRY[a.pid]
        rc = fn(a.pid, a.tier)
    except Machinery as ex:
        print(f"MACHINERY FAILURE ({a.pid}): {ex}", file=sys.stderr)
        return 2
    print(f"{a.pid} {a.tier}: {'HELD' if rc == 0 else 'VIOLATED'}")
    return rc


if __name__ == "__main__":
    sys.exit(main())
