"""C12: models interpolate the recorded values after every update, shift and reset.

R  behaviours of spec/InterpBook.tla (random sequences of Replace / ReplaceNear / Shift / Reset,
   exported by TLC -simulate) are replayed into a real Models object (n = 1..5, every admissible
   number of points, 0..3 constraint models).  After every action: the slot tables of the real
   object equal the specification's, and every model reproduces every recorded value.
T  every update / shift / reset / construction event of recorded real runs carries the largest
   interpolation residual per model and its tolerance (clauses C12.resid.*, C12.recorded, C12.clip).
"""
import json
import math
import multiprocessing as mp
import os
import sys
import time

import numpy as np

from . import checks
from .common import OUT, Machinery, Verdict, run_tlc, write_cfg, write_evidence, seed, NCPU

EPS = np.finfo(float).eps


def _behaviours(npt, maxlen, num, tag):
    cfg = write_cfg(os.path.join(OUT, f"book-{tag}.cfg"), spec="BSpec",
                    constants=dict(Npt=npt, NDirs=12, MaxLen=maxlen, NModels=4), invariants=["Recorded", "Distinct", "SameGeneration", "Export"])
    r = run_tlc("InterpBook", cfg, tag=f"book-{tag}", simulate=f"num={num}", depth=maxlen + 1,
                seed_=seed() + npt, workers=4, timeout=1800)
    if r["violated"]:
        raise Machinery(f"InterpBook.tla violates {r['violated']}")
    recs = []
    for line in r["out"].splitlines():
        if line.startswith('"EXPORT '):
            recs.append(json.loads(line[8:-1].replace('\\"', '"')))
    return recs, r


def _funs(n, m):
    w = np.arange(1, n + 1, dtype=float)

    def obj(x):
        return float(np.sum(w * (x - 0.3) ** 2) + 0.1 * np.sum(x) ** 3 + math.sin(float(x[0])))
    cons = []
    for i in range(m):
        cons.append(lambda x, i=i: float(np.sum(np.cos(x + i)) + 0.5 * (i + 1) * float(x[-1]) ** 2 - 0.25 * float(x[0]) * (i + 1)))
    return obj, cons


def _replay_chunk(args):
    os.environ["OPENBLAS_NUM_THREADS"] = "1"
    jobs = args
    from .common import import_cobyqa
    import_cobyqa()
    from cobyqa.models import Models, build_system
    import cobyqa.models as MD
    from cobyqa.problem import (ObjectiveFunction, BoundConstraints, LinearConstraints,
                                NonlinearConstraints, Problem)
    from cobyqa.main import _set_default_options
    from scipy.optimize import Bounds, NonlinearConstraint
    bad = []
    nact = 0
    worst = 0.0
    nill = 0
    for ji, (n, m, rec) in enumerate(jobs):
        npt = rec["npt"]
        sc = 2.0 ** -30 if (ji % 3 == 2) else 1.0     # a third of the behaviours at a tiny length scale
        fobj, fcons = _funs(n, m)
        # constraint kinds alternate: inequality / equality models
        nlc = [NonlinearConstraint(fc, (-np.inf if i % 2 == 0 else 0.25), 0.25) for i, fc in enumerate(fcons)]
        pb = Problem(ObjectiveFunction(fobj, False, False), np.full(n, 0.125 * sc),
                     BoundConstraints(Bounds([-np.inf] * n, [np.inf] * n)), LinearConstraints([], n, False),
                     NonlinearConstraints(nlc, False, False), None, 1e-8, False, False, 1, sys.maxsize, False)
        options = {"nb_points": npt, "radius_init": 0.5 * sc, "radius_final": min(1e-6, 0.5 * sc)}
        _set_default_options(options, n)
        models = Models(pb, options, 0.0)
        rng = np.random.RandomState(1234 + n)
        dirs = rng.uniform(-1.0, 1.0, size=(12, n))
        dirs /= np.linalg.norm(dirs, axis=1)[:, None]
        coords = {k + 1: models.interpolation.point(k).copy() for k in range(npt)}
        vals = {k + 1: (float(models.fun_val[k]), models.cub_val[k].copy(), models.ceq_val[k].copy()) for k in range(npt)}
        pt = list(range(1, npt + 1))
        where = {"n": n, "m": m, "npt": npt, "scale": sc}

        condmax = [1.0]
        # generation counters: Quadratic.update calls received by each model object
        gens = {}
        orig_update = MD.Quadratic.update

        def counting_update(self, *a, **k):
            gens[id(self)] = gens.get(id(self), 0) + 1
            return orig_update(self, *a, **k)
        MD.Quadratic.update = counting_update

        def model_objs():
            return [models._fun] + list(models._cub) + list(models._ceq)
        specgen = [0]

        def check(after, idx):
            nonlocal worst, nill
            itp = models.interpolation
            a, rs, (ev, _) = build_system(itp)
            ae = np.abs(ev)
            cond = float(np.max(ae) / np.min(ae)) if np.min(ae) > 0 else float("inf")
            condmax[0] = max(condmax[0], cond)       # errors made while ill-conditioned persist
            ill = condmax[0] > 1e13
            nill += int(cond > 1e13)
            for k in range(npt):
                x = coords[pt[k]]
                if not np.allclose(itp.point(k), x, rtol=0, atol=64 * EPS * max(1.0, float(np.max(np.abs(x))))):
                    return ("C12.slot", f"slot {k + 1} holds {itp.point(k)} but the specification says {x}")
                fv, cu, ce = vals[pt[k]]
                if models.fun_val[k] != fv or not np.array_equal(models.cub_val[k], cu) or not np.array_equal(models.ceq_val[k], ce):
                    return ("C12.recorded", f"slot {k + 1}: recorded values are not those measured at its point")
            # residuals of every model at every interpolation point
            rel = []
            for name, mod, table in [("fun", models.fun, models.fun_val)] + \
                    [(f"cub{i}", (lambda x, i=i: models.cub(x)[i]), models.cub_val[:, i]) for i in range(models.m_nonlinear_ub)] + \
                    [(f"ceq{i}", (lambda x, i=i: models.ceq(x)[i]), models.ceq_val[:, i]) for i in range(models.m_nonlinear_eq)]:
                r = max(abs(float(mod(itp.point(k))) - float(table[k])) for k in range(npt))
                sc = float(np.max(np.abs(table), initial=1.0))
                rel.append((name, r / sc))
            if ill:
                # Once a near-duplicate point has made the system numerically singular (cond > 1e13)
                # "eps times conditioning" allows any error, and the huge cancelling coefficients such a
                # state may leave behind are amplified by later shifts and updates: nothing about the
                # size of the residuals can be decided until the models are rebuilt.  That every model
                # is updated all the same is decided exactly by the generation counters (below).
                return None
            tol = 500.0 * EPS * max(n, npt) * condmax[0]
            for name, rr in rel:
                worst = max(worst, rr / tol)
                if not (rr <= tol):
                    return ("C12.resid." + after, f"model {name}: relative residual {rr:.3e} > {tol:.3e} (cond {cond:.2e}) after action {idx}")
            return None

        res = check("build", 0)
        for idx, h in enumerate(rec["hist"]):
            if res:
                break
            nact += 1
            try:
                if h["a"] in ("replace", "near"):
                    if h["a"] == "replace":
                        rad = (0.25, 0.5, 1.0)[h["d"] % 3]
                        x_new = coords[h["from"]] + rad * sc * dirs[h["d"] - 1]
                    else:
                        x_new = coords[h["from"]].copy()
                        x_new[0] += 1e-9 * sc
                    fv, cu, ce = pb(x_new, 0.0)
                    coords[h["id"]] = x_new.copy()
                    vals[h["id"]] = (float(fv), np.array(cu, float), np.array(ce, float))
                    before = [gens.get(id(q), 0) for q in model_objs()]
                    models.update_interpolation(h["k"] - 1, x_new, float(fv), cu, ce)
                    pt[h["k"] - 1] = h["id"]
                    after_g = [gens.get(id(q), 0) for q in model_objs()]
                    specgen[0] += 1
                    if any(a_ - b_ != 1 for a_, b_ in zip(after_g, before)):
                        res = ("C12.generation", f"action {idx + 1} {h['a']}: updates received per model {[a_ - b_ for a_, b_ in zip(after_g, before)]}, the specification says 1 each")
                        break
                elif h["a"] == "shift":
                    models.shift_x_base(np.copy(coords[h["from"]]), options)
                elif h["a"] == "reset":
                    models.reset_models()
                    condmax[0] = 1.0          # the models are rebuilt from the recorded values
                    specgen[0] = 0
            except np.linalg.LinAlgError:
                break          # an ill-defined system may be reported; the behaviour ends here
            except Exception as ex:
                res = ("C12.raise", f"{type(ex).__name__}: {ex} at action {idx + 1} {h}")
                break
            res = check(h["a"], idx + 1)
        MD.Quadratic.update = orig_update
        if res is None and rec.get("gen") and rec["gen"][0] != specgen[0]:
            res = ("C12.generation", f"generation counter {specgen[0]} differs from the specification's {rec['gen'][0]}")
        if res:
            bad.append((res[0], dict(where, hist=rec["hist"][:idx + 1] if rec["hist"] else [], what=res[1])))
    return bad, nact, worst, nill


def replay(tier, verdict):
    jobs = []
    states = 0
    nb = 0
    for n in (1, 2, 3, 4, 5):
        npts = sorted(set([n + 1, 2 * n + 1, (n + 1) * (n + 2) // 2, min(n + 2, (n + 1) * (n + 2) // 2)]))
        if tier == "thorough":
            npts = list(range(n + 1, (n + 1) * (n + 2) // 2 + 1))
        for npt in npts:
            num = 6 if tier == "quick" else 12
            recs, r = _behaviours(npt, 20 if tier == "quick" else 60, num, f"{n}-{npt}")
            states += r["generated"]
            for i, rec in enumerate(recs):
                jobs.append((n, i % 4, rec))
                nb += 1
    if not jobs:
        raise Machinery("no behaviours exported")
    k = max(1, len(jobs) // (4 * NCPU))
    chunks = [jobs[i:i + k] for i in range(0, len(jobs), k)]
    nact = 0
    worst = 0.0
    nill = 0
    with mp.get_context("fork").Pool(NCPU) as pool:
        for bad, na, w, ni in pool.imap_unordered(_replay_chunk, chunks):
            nact += na
            worst = max(worst, w)
            nill += ni
            for cl, det in bad:
                verdict.add(cl, json.dumps({kk: det[kk] for kk in ("n", "m", "npt", "scale", "hist")}), det)
    return {"behaviours_replayed": nb, "actions_replayed": nact, "simulation_states": states,
            "largest_residual_over_tolerance": round(worst, 6), "ill_conditioned_states_checked": nill,
            "samples": [{"n": jobs[0][0], "constraint_models": jobs[0][1], "history": jobs[0][2]["hist"][:5]}]}


def check(pid, tier):
    t0 = time.time()
    v = Verdict("C12")
    rp = replay(tier, v)
    cov = checks.trace_part("C12", "Runs", 300, ("interp", "tr"), "quick" if tier == "quick" else "quick4", v)
    # initial sets with nb_points > 2n+1 started where only some coordinates are near their upper bound
    cov2 = checks.trace_part("C12", "C12b", 64, ("interp", "tr"), "quick" if tier == "quick" else "thorough", v)
    for k in ("states", "transitions", "traces_validated_against_impl", "universe_size", "universe_visited"):
        if k in cov and k in cov2:
            cov[k] += cov2[k]
    cov["initial_set_universe"] = {k: cov2[k] for k in ("universe_size", "universe_visited") if k in cov2}
    cov["replay"] = {k: rp[k] for k in rp if k != "samples"}
    cov["states"] += rp["simulation_states"]
    cov["transitions"] += rp["simulation_states"]
    cov["samples"] = cov["samples"] + rp["samples"]
    rc = v.finish()
    write_evidence("C12", tier, "model_checking", cov, time.time() - t0, len(v.violations),
                   checks.ASSUME_T + ["interpolation residuals are measured by the harness; tolerance 500 eps max(n,npt) cond(W) (largest conditioning since the last rebuild) relative to the largest recorded value; once a near-duplicate point has made the system numerically singular (cond > 1e13) the size of the residuals is not decided any more (replay and recorded runs) until the models are rebuilt; that every model receives exactly one update per replacement is decided exactly by generation counters (InterpBook.tla gen, clause C12.generation)",
                                      "behaviours come from TLC -simulate on InterpBook.tla (finite sample of the sequences of length <= 60)"])
    return rc
