"""Measure one call of a subproblem solver made by the framework during a real run: the same outcome
record as harness/c1516.py builds for the instances of Subproblem.tla (floats; encoded to keys later)."""
import math

import numpy as np

EPS = np.finfo(float).eps


def measure(kind, a, kw, s, exc):
    hp = aub = bub = aeq = g = None
    if kind == "tangential":
        g, hp, xl, xu, delta = a[0], a[1], a[2], a[3], float(a[4])
        aub = bub = aeq = None
    elif kind == "constrained_tangential":
        g, hp, xl, xu, aub, bub, aeq, delta = a[0], a[1], a[2], a[3], a[4], a[5], a[6], float(a[7])
    elif kind == "normal":
        aub, bub, aeq, beq, xl, xu, delta = a[0], a[1], a[2], a[3], a[4], a[5], float(a[6])
        g = hp = None
    elif kind in ("cauchy_geometry", "spider_geometry"):
        const, g, curv = float(a[0]), a[1], a[2]
        if kind == "cauchy_geometry":
            xl, xu, delta = a[3], a[4], float(a[5])
        else:
            xl, xu, delta = a[4], a[5], float(a[6])
    else:
        return None
    n = xl.size
    if not (np.all(xl <= 0.0) and np.all(xu >= 0.0)) or not (math.isfinite(delta) and delta > 0.0):
        return None            # outside the documented assumptions of the solvers (origin feasible)
    # C15 / C16 quantify over data whose magnitudes span at most 12 decades: calls made after a barrier
    # value (2^100) has entered the models carry gradients of 1e18 and more next to radii of 0.1 and
    # are outside that domain (the clauses are not evaluated on them; see DESIGN 9.4)
    mags = [delta]
    for arr in (g if g is not None else None, aub, aeq):
        if arr is not None and np.size(arr):
            m = float(np.max(np.abs(arr)))
            if m > 0.0:
                mags.append(m)
    for arr in (xl, xu):
        f = np.abs(arr[np.isfinite(arr) & (arr != 0.0)])
        if f.size:
            mags += [float(np.max(f)), float(np.min(f))]
    if hp is not None and g is not None:
        try:
            e = np.zeros(n)
            e[0] = delta
            hm = float(np.max(np.abs(hp(e)))) / delta
            if hm > 0.0:
                mags.append(hm)
        except Exception:
            pass
    if not all(math.isfinite(m) for m in mags) or max(mags) / min(mags) > 1e12:
        return None
    if exc != "none" or s is None:
        s = np.zeros(n)
    s = np.asarray(s, float)
    ns = float(np.linalg.norm(s))
    out = dict(fn=kind, s=list(s), xl=list(np.minimum(xl, 0.0)), xu=list(np.maximum(xu, 0.0)), norm=ns,
               deltaHi=delta * (1.0 + 1e-9), ineq=[], ineqHi=[], eq=[], eqHi=[], dec=float("nan"),
               cauchyLo=float("nan"), improvable=False, exc=exc)
    if kind in ("tangential", "constrained_tangential"):
        Hs = np.asarray(hp(s), float)
        q = float(g @ s + 0.5 * s @ Hs)
        band = 64.0 * EPS * (float(np.abs(g) @ np.abs(s)) + 0.5 * float(np.abs(s) @ np.abs(Hs))) + 1e-300
        out.update(kind="min", q0Lo=-band, q0Hi=band, qs=q)
        if kind == "constrained_tangential":
            if np.any(bub < 0.0):
                return None
            ri = aub @ s - bub
            out["ineq"] = list(ri)
            out["ineqHi"] = list(64.0 * EPS * (np.abs(aub) @ np.abs(s) + np.abs(bub)) + 1e-9 * np.linalg.norm(aub, axis=1) * ns) if aub.size else []
            out["eq"] = list(np.abs(aeq @ s))
            out["eqHi"] = list(1e-9 * np.linalg.norm(aeq, axis=1) * ns + 64.0 * EPS * (np.abs(aeq) @ np.abs(s))) if aeq.size else []
    elif kind == "normal":
        def viol(z):
            return math.sqrt(float(np.sum(np.maximum(aub @ z - bub, 0.0) ** 2) + np.sum((aeq @ z - beq) ** 2)))
        v0 = viol(np.zeros(n))
        band = 64.0 * EPS * (v0 + float(np.linalg.norm(aub) + np.linalg.norm(aeq)) * ns) + 1e-300
        out.update(kind="min", q0Lo=v0 - band, q0Hi=v0 + band, qs=viol(s))
    else:
        cv = float(curv(s))
        q = const + float(g @ s) + 0.5 * cv
        band = 64.0 * EPS * (abs(const) + float(np.abs(g) @ np.abs(s)) + 0.5 * abs(cv)) + 1e-300
        out.update(kind="max", q0Lo=abs(const) - band, q0Hi=abs(const) + band, qs=abs(q),
                   fn=(kind if const == 0.0 else kind + "_c"))
        if kind == "cauchy_geometry" and const == 0.0:
            # a feasible first-order improving direction exists (sign pattern): see Subproblem.tla
            out["improvable"] = bool(np.any((g != 0.0) & ((xl < 0.0) | (xu > 0.0))))
    return out
