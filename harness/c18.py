"""C18: trust-region radius, resolution, penalty and centre stay coherent.

D  TrustRegion.tla exhaustively on the dyadic lattice (constants over the boundary lattice of
   their documented domains, chosen in the initial state).
R  every exported transition is replayed into a real TrustRegion (toy two-variable problem):
   radius and resolution are set through the public setters, the rule is applied, and the
   results are compared exactly.
T  every iteration of every recorded run of the 'Runs' universe ('tr' event family):
   rhoend <= resolution <= radius, monotone resolution, bounded reductions, finite penalty,
   centre = least merit, replaced slot != centre, status 0 => resolution = radius_final.
"""
import json
import multiprocessing as mp
import os
import time

import numpy as np

from . import checks
from .common import OUT, Machinery, Verdict, run_tlc, write_cfg, write_evidence, seed, NCPU

UNIT = 4096.0

FULL = dict(RhoBegs="<-RB", RhoEnds="<-RE", DRFs="<-DRF", IRFs="<-IRF", IRTs="<-IRT", DRTs="<-DRT",
            DRESFs="<-DRESF", LARGEs="<-LARGE", MODs="<-MOD")
DEFAULTISH = dict(RhoBegs="<-RB", RhoEnds="<-RE", DRFs="<-DRF1", IRFs="<-IRF1", IRTs="<-IRT1", DRTs="<-DRT1",
                  DRESFs="<-DRESF1", LARGEs="<-LARGE1", MODs="<-MOD1")
INV = ["Order", "Status0", "Bounded"]


def design(tier):
    out = {}
    steps = 8 if tier == "thorough" else 5
    cfg = write_cfg(os.path.join(OUT, "c18-d.cfg"), spec="Spec",
                    constants=dict(FULL, ClampResolution=True, MaxSteps=steps), invariants=INV,
                    properties=["ResMono"])
    r = run_tlc("MCTrustRegion", cfg, tag="c18-d", timeout=3600)
    if r["violated"]:
        raise Machinery(f"TrustRegion.tla violates {r['violated']}\n" + r["out"][-3000:])
    out.update(states=r["distinct"], transitions=r["generated"], max_steps=steps)
    cfg = write_cfg(os.path.join(OUT, "c18-dev.cfg"), spec="Spec",
                    constants=dict(FULL, ClampResolution=False, MaxSteps=3), invariants=["Order"])
    r = run_tlc("MCTrustRegion", cfg, tag="c18-dev")
    if r["violated"] != "Order":
        raise Machinery("the original enhance_resolution rule is not rejected by Order")
    out["deviations_rejected"] = ["resolution *= decrease_resolution_factor without the radius_final floor"]
    out["apalache"] = inductive()
    return out


def inductive():
    """Unbounded safety with Apalache: radius_final <= resolution <= radius is an inductive invariant of
    spec/apalache/TrustRegionInd.tla (arbitrary integer lengths); the original rule must fail the step."""
    import shutil
    import subprocess
    from .common import SPEC
    if shutil.which("apalache-mc") is None:
        return {"ran": False, "why": "apalache-mc not found"}
    d = os.path.join(SPEC, "apalache")
    outdir = os.path.join(OUT, "apa")

    def run(module, init, length):
        p = subprocess.run(["apalache-mc", "check", f"--init={init}", "--inv=IndInv", f"--length={length}",
                            f"--out-dir={outdir}", module], cwd=d, capture_output=True, text=True, timeout=600)
        return "The outcome is: NoError" in p.stdout, p.stdout[-1500:]
    try:
        base, o1 = run("MC_TRI.tla", "Init", 0)
        step, o2 = run("MC_TRI.tla", "IndInit", 1)
        dev, o3 = run("MC_TRI_dev.tla", "IndInit", 1)
    except subprocess.TimeoutExpired:
        return {"ran": False, "why": "timeout"}
    finally:
        shutil.rmtree(outdir, ignore_errors=True)
    if not (base and step):
        raise Machinery("Apalache: the invariant of TrustRegionInd.tla is not inductive\n" + o1 + o2)
    if dev:
        raise Machinery("Apalache: the original enhance_resolution rule passes the induction step (vacuous)")
    return {"ran": True, "obligations": ["Init => IndInv (length 0)", "IndInv /\\ Next => IndInv' (length 1)"],
            "discharged": 2, "deviation_counterexample_found": True}


def _export(consts, steps, tag):
    cfg = write_cfg(os.path.join(OUT, f"c18-e{tag}.cfg"), spec="Spec",
                    constants=dict(consts, ClampResolution=True, MaxSteps=steps), invariants=["Export"])
    r = run_tlc("MCTrustRegion", cfg, tag=f"c18-e{tag}", timeout=3600)
    recs = []
    for line in r["out"].splitlines():
        if line.startswith('"EXPORT '):
            recs.append(json.loads(line[8:-1].replace('\\"', '"')))
    return recs, r


def _q(p):
    return float(p[0]) / float(p[1])


def _replay_chunk(recs):
    os.environ["OPENBLAS_NUM_THREADS"] = "1"
    from .common import import_cobyqa
    cobyqa = import_cobyqa()
    from cobyqa.framework import TrustRegion
    from cobyqa.problem import (ObjectiveFunction, BoundConstraints, LinearConstraints,
                                NonlinearConstraints, Problem)
    from cobyqa.main import _set_default_options, _set_default_constants
    from scipy.optimize import Bounds
    import sys
    bad = []
    cache = {}
    for rec in recs:
        k = rec["k"]
        key = json.dumps(k, sort_keys=True) + str(rec["rhoend"])
        consts_in = dict(decrease_radius_factor=_q(k["drf"]), increase_radius_factor=_q(k["irf"]),
                         increase_radius_threshold=_q(k["irt"]), decrease_radius_threshold=_q(k["drt"]),
                         decrease_resolution_factor=_q(k["dresf"]), large_resolution_threshold=_q(k["large"]),
                         moderate_resolution_threshold=_q(k["mod"]))
        if key not in cache:
            obj = ObjectiveFunction(lambda x: float(x @ x), False, False)
            pb = Problem(obj, np.array([0.5, -0.5]), BoundConstraints(Bounds([-np.inf] * 2, [np.inf] * 2)),
                         LinearConstraints([], 2, False), NonlinearConstraints([], False, False), None,
                         1e-8, False, False, 1, sys.maxsize, False)
            options = {"radius_init": 1.0, "radius_final": rec["rhoend"] / UNIT}
            _set_default_options(options, 2)
            constants = _set_default_constants(**consts_in)
            fw = TrustRegion(pb, options, constants)
            cache[key] = (fw, options)
        fw, options = cache[key]
        last = rec["last"]
        fw.resolution = last["res0"] / UNIT
        fw.radius = last["r0"] / UNIT              # r0 >= res0: the setter keeps it or snaps to res0
        if fw.radius != last["r0"] / UNIT:
            fw._radius = last["r0"] / UNIT
        st = "run"
        if last["a"] == "update":
            ratio = {"low": 0.05, "mid": 0.5, "high": 0.9}[last["ratio"]]
            fw.update_radius(np.array([last["s"] / UNIT, 0.0]), ratio)
        elif last["a"] == "short":
            fw.radius *= consts_in["decrease_resolution_factor"]
        elif last["a"] in ("enhance", "exit0"):
            if fw.resolution <= options["radius_final"]:
                st = "status0"
            else:
                fw.enhance_resolution(options)
        got = (fw.radius * UNIT, fw.resolution * UNIT, st)
        exp = (float(rec["radius"]), float(rec["resol"]), rec["status"])
        if got != exp:
            bad.append({"transition": rec, "got_radius": got[0] / UNIT, "got_resolution": got[1] / UNIT,
                        "got_status": got[2], "expected_radius": exp[0] / UNIT, "expected_resolution": exp[1] / UNIT})
    return bad, len(recs)


def replay(tier, verdict):
    recs, r = _export(FULL, 4 if tier == "thorough" else 2, "f")
    recs2, r2 = _export(DEFAULTISH, 10 if tier == "thorough" else 7, "d")
    allr = recs + recs2
    if not allr:
        raise Machinery("no transitions exported by TLC")
    n = max(1, len(allr) // (4 * NCPU))
    chunks = [allr[i:i + n] for i in range(0, len(allr), n)]
    nrep = 0
    with mp.get_context("fork").Pool(NCPU) as pool:
        for bad, kk in pool.imap_unordered(_replay_chunk, chunks):
            nrep += kk
            for b in bad:
                t = b["transition"]
                verdict.add("C18.rule." + t["last"]["a"], json.dumps({"k": t["k"], "rhoend": t["rhoend"], "last": t["last"]}, sort_keys=True), b)
    return {"transitions_replayed": nrep, "export_states": r["distinct"] + r2["distinct"],
            "samples": [allr[0], allr[-1]]}


def check(pid, tier):
    t0 = time.time()
    v = Verdict("C18")
    d = design(tier)
    rp = replay(tier, v)
    cov = checks.trace_part("C18", "Runs", 700, ("tr",), tier, v)
    cov["design"] = d
    cov["replay"] = {k: rp[k] for k in ("transitions_replayed", "export_states")}
    cov["states"] += d["states"] + rp["export_states"]
    cov["transitions"] += d["transitions"]
    cov["samples"] = cov["samples"] + rp["samples"]
    rc = v.finish()
    write_evidence("C18", tier, "model_checking", cov, time.time() - t0, len(v.violations),
                   checks.ASSUME_T + ["dyadic lattice: lengths in units of 2^-12, constants with power-of-two denominators (exact in double precision); non-dyadic defaults (sqrt 2, 1.4, 0.1, 250) are covered by trace validation of real runs only",
                                      "merit of the interpolation points is recomputed by the recorder from the recorded values (no user function is called)"])
    return rc
