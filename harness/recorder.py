"""Recorder: observes a call of cobyqa.minimize from outside (no repository hooks).

User space : spies around fun, every nonlinear constraint function and the callback.
Solver side: wrappers installed (in this process only) on Problem / ObjectiveFunction /
TrustRegion / Models methods and on the subsolver names imported by cobyqa.framework.
A wrapper emits its event after the wrapped call returned or raised.

One trace per minimize call; nested / concurrent calls record into their own traces (a
per-thread stack of open runs).  Floats are wrapped in K and turned into per-trace order keys
by keys.encode().
"""
import functools
import inspect
import math
import threading
import time

import numpy as np

from . import truth
from .common import import_cobyqa

EPS = np.finfo(float).eps


class K(float):
    """A float that must become an order key."""
    __slots__ = ()


def KL(a):
    return [K(v) for v in np.asarray(a, float).ravel()]


_tls = threading.local()
_glock = threading.Lock()
_gseq = [0]
_installed = [False]
_run_counter = [0]

MESSAGES = {
    0: "The lower bound for the trust-region radius has been reached",
    1: "The target objective function value has been reached",
    2: "All variables are fixed by the bound constraints",
    3: "The callback requested to stop the optimization procedure",
    4: "The feasibility problem received has been solved successfully",
    5: "The maximum number of function evaluations has been exceeded",
    6: "The maximum number of iterations has been exceeded",
    -1: "The bound constraints are infeasible",
    -2: "A linear algebra error occurred",
}


class Hang(BaseException):
    pass


def _stack():
    s = getattr(_tls, "stack", None)
    if s is None:
        s = _tls.stack = []
    return s


def cur():
    s = _stack()
    return s[-1] if s else None


class Window:
    """One open evaluation (a call of Problem.__call__)."""

    def __init__(self, site):
        self.site = site
        self.xu = None          # user-space point (from ObjectiveFunction.__call__)
        self.cvI = None         # the implementation's own violation for this evaluation
        self.fI = None          # raw objective value as returned to Problem
        self.obj_calls = 0
        self.con_calls = {}     # j -> number of calls in this window
        self.con_vals = {}      # j -> value at the user-space point


class Run:
    def __init__(self, rid, want=()):
        self.rid = rid
        self.events = []
        self.win = []           # stack of open windows (nested only through hidden evals)
        self.next_site = "INIT"
        self.in_best_eval = 0
        self.pb = None
        self.fw = None
        self.models = None
        self.options_ref = None
        self.depth = 0          # depth of wrapped solver methods (to find top-level calls)
        self.want = set(want)   # optional event families: "tr", "interp", "sub"
        self.nevals = 0
        self.last_con_x = {}    # j -> last point the constraint function j was called with
        self.last_con_v = {}
        self.spec = None        # problem statement (filled by record_call)
        self.evals = []         # per completed evaluation: dict(xu, f, cvI, cvT, lo, hi)
        self.seq = 0
        self.tid = threading.get_ident()

    def emit(self, e, **kw):
        self.seq += 1
        with _glock:
            _gseq[0] += 1
            g = _gseq[0]
        kw["e"] = e
        kw["s"] = self.seq
        kw["g"] = g
        self.events.append(kw)
        return kw


# ------------------------------------------------------------------ user-space spies
def _spy_obj(run, fun):
    if fun is None:
        return None

    @functools.wraps(fun)
    def spy(x, *args):
        xc = np.array(x, float, copy=True)
        r = cur()
        ok = r is run
        w = run.win[-1] if run.win else None
        exc = "none"
        try:
            v = fun(x, *args)
            return v
        except BaseException as ex:  # user exceptions propagate untouched
            exc = type(ex).__name__
            v = float("nan")
            raise
        finally:
            try:
                fv = float(np.squeeze(v))
            except Exception:
                fv = float("nan")
            run.emit("Obj", x=KL(xc), v=K(fv), inwin=w is not None, exc=exc,
                     site=(w.site if w else "NONE"), same=ok)
            if w is not None:
                w.obj_calls += 1

    return spy


def _spy_con(run, j, fun):
    @functools.wraps(fun)
    def spy(x, *args):
        xc = np.array(x, float, copy=True)
        w = run.win[-1] if run.win else None
        exc = "none"
        v = None
        try:
            v = fun(x, *args)
            return v
        except BaseException as ex:
            exc = type(ex).__name__
            raise
        finally:
            try:
                vv = np.atleast_1d(np.asarray(v, float)).ravel()
            except Exception:
                vv = np.array([float("nan")])
            prev = run.last_con_x.get(j)
            run.emit("Con", j=j + 1, x=KL(xc), nv=int(vv.size), inwin=w is not None, exc=exc,
                     site=(w.site if w else "NONE"),
                     rep=bool(prev is not None and prev.shape == xc.shape and np.array_equal(prev, xc)))
            run.last_con_x[j] = xc
            run.last_con_v[j] = vv
            if w is not None:
                w.con_calls[j] = w.con_calls.get(j, 0) + 1
                if j not in w.con_vals:
                    w.con_vals[j] = (xc, vv)

    return spy


def _spy_cb(run, cb):
    if cb is None:
        return None

    @functools.wraps(cb)
    def spy(*a, **kw):
        conv = "kw" if "intermediate_result" in kw else ("pos" if len(a) == 1 and not kw else "other")
        try:
            if conv == "kw":
                ir = kw["intermediate_result"]
                x = np.array(ir.x, float, copy=True)
                f = float(ir.fun)
                fields = sorted(ir.keys())
            elif conv == "pos":
                x = np.array(a[0], float, copy=True)
                f = float("nan")
                fields = []
            else:
                x = np.zeros(0)
                f = float("nan")
                fields = []
        except Exception:
            x = np.zeros(0)
            f = float("nan")
            fields = ["?"]
        w = run.win[-1] if run.win else None
        # what minimize would return if it stopped now (design 5/C20); optional
        would = None
        pen = run.cur_pen if hasattr(run, "cur_pen") else 0.0
        pb = run.pb
        if pb is not None:
            try:
                xb, fb, cb_ = pb.best_eval(pen)
                would = (np.array(pb.build_x(xb), float), float(fb), float(cb_))
            except Exception:
                would = None
        raised = "none"
        try:
            return cb(*a, **kw)
        except StopIteration:
            raised = "StopIteration"
            raise
        except BaseException as ex:
            raised = type(ex).__name__
            raise
        finally:
            ev = run.emit("Cb", x=KL(x), f=K(f), conv=conv, raised=raised, inwin=w is not None,
                          nev=len(run.evals) + (1 if w is not None else 0),
                          hasf=(conv == "kw" and "fun" in fields),
                          would=(KL(would[0]) if would is not None else []),
                          wouldf=(K(would[1]) if would is not None else K(float("nan"))),
                          haswould=would is not None)
            run.pending_cb = ev

    return spy


# ------------------------------------------------------------------ solver-side wrappers
def _wrap_method(cls, name, before=None, after=None):
    orig = getattr(cls, name)
    if getattr(orig, "_verif_wrapped", False):
        return

    @functools.wraps(orig)
    def wrapper(self, *a, **kw):
        run = cur()
        if run is None:
            return orig(self, *a, **kw)
        ctx = before(run, self, a, kw) if before else None
        run.depth += 1
        exc = None
        res = None
        try:
            res = orig(self, *a, **kw)
            return res
        except BaseException as ex:
            exc = ex
            raise
        finally:
            run.depth -= 1
            if after:
                after(run, self, a, kw, ctx, res, exc)

    wrapper._verif_wrapped = True
    setattr(cls, name, wrapper)


def _slot_merits(run, fw):
    """Merit and violation of every interpolation point, computed independently of the
    solver's own merit routine (no user function is called)."""
    pb = run.pb
    m = fw.models
    itp = m.interpolation
    pen = float(fw.penalty)
    mer, vio = [], []
    for k in range(m.npt):
        x = itp.point(k)
        parts = [np.maximum(pb.linear.a_ub @ x - pb.linear.b_ub, 0.0),
                 np.abs(pb.linear.a_eq @ x - pb.linear.b_eq),
                 np.maximum(m.cub_val[k, :], 0.0), np.abs(m.ceq_val[k, :])]
        c = np.concatenate(parts) if parts else np.zeros(0)
        nv = float(np.linalg.norm(c)) if c.size else 0.0
        mv = float(np.max(c, initial=0.0))
        mer.append(float(m.fun_val[k]) + (pen * nv if pen > 0.0 and np.count_nonzero(c) else 0.0))
        vio.append(mv)
    return mer, vio


def _interp_resid(run, models):
    """Largest interpolation residual of each model, relative scale and conditioning."""
    itp = models.interpolation
    pts = [itp.point(k) for k in range(models.npt)]
    res = []
    scale = []
    r = max(abs(models.fun(p) - models.fun_val[k]) for k, p in enumerate(pts))
    res.append(float(r))
    scale.append(float(np.max(np.abs(models.fun_val), initial=1.0)))
    for i in range(models.m_nonlinear_ub):
        r = max(abs(models.cub(p)[i] - models.cub_val[k, i]) for k, p in enumerate(pts))
        res.append(float(r))
        scale.append(float(np.max(np.abs(models.cub_val[:, i]), initial=1.0)))
    for i in range(models.m_nonlinear_eq):
        r = max(abs(models.ceq(p)[i] - models.ceq_val[k, i]) for k, p in enumerate(pts))
        res.append(float(r))
        scale.append(float(np.max(np.abs(models.ceq_val[:, i]), initial=1.0)))
    return res, scale


def _cond_estimate(models):
    from cobyqa.models import build_system
    try:
        a, rs, (ev, _) = build_system(models.interpolation)
        ae = np.abs(ev)
        big = ae[ae > EPS]
        return float(np.max(ae) / np.min(big)) if big.size else float("inf")
    except Exception:
        return float("inf")


def install():
    if _installed[0]:
        return
    cobyqa = import_cobyqa()
    import cobyqa.problem as P
    import cobyqa.framework as FW
    import cobyqa.models as MD

    # ---- Problem.__call__ : evaluation windows
    def pc_before(run, self, a, kw):
        run.pb = self
        x = np.array(a[0] if a else kw.get("x"), float, copy=True)
        pen = a[1] if len(a) > 1 else kw.get("penalty", 0.0)
        run.cur_pen = float(pen)
        if run.win:
            site = "HIDDEN"
        elif run.in_best_eval:
            site = "RESULT"
        else:
            site = run.next_site
        w = Window(site)
        w.depth = run.depth + 1
        xl = np.asarray(self.bounds.xl, float)
        xu = np.asarray(self.bounds.xu, float)
        n = max(x.size, 1)
        allow = 100.0 * EPS * n * np.maximum.reduce(
            [np.ones_like(x), np.where(np.isfinite(xl), np.abs(xl), 0.0),
             np.where(np.isfinite(xu), np.abs(xu), 0.0), np.abs(x)]) if x.size else np.zeros(0)
        feas = bool(getattr(self.bounds, "is_feasible", True))
        run.emit("EB", site=site, xin=KL(x), loW=KL(xl - allow), hiW=KL(xu + allow),
                 pen=K(float(pen)), bfeas=feas)
        run.win.append(w)
        run.pending_cb = None
        return w

    def pc_after(run, self, a, kw, w, res, exc):
        run.win.pop()
        spec = run.spec
        xu = w.xu
        # nonlinear values of this evaluation at the user-space point
        nlv = []
        undefined = False
        if spec is not None:
            for j, s in enumerate(spec["nl"]):
                got = w.con_vals.get(j)
                if got is None or (xu is not None and not np.array_equal(got[0], xu)):
                    # omitted call: the value of the previous call at the identical point
                    px, pv = run.last_con_x.get(j), run.last_con_v.get(j)
                    if px is not None and xu is not None and np.array_equal(px, xu):
                        got = (px, pv)
                    else:
                        # find any call in this window at xu
                        got = None
                if got is None:
                    undefined = True
                else:
                    nlv.append((got[1], s["lb"], s["ub"]))
        if xu is not None and spec is not None and not undefined:
            cvT, lo, hi = truth.true_violation(xu, spec["lb"], spec["ub"], spec["lin"], nlv)
        else:
            cvT = lo = hi = float("nan")
        out_ok = True
        outs = []
        if exc is None and res is not None:
            try:
                fo, cu, ce = res
                outs = [float(fo)] + [float(v) for v in np.asarray(cu).ravel()] + \
                       [float(v) for v in np.asarray(ce).ravel()]
            except Exception:
                out_ok = False
        fraw = w.fI if w.fI is not None else float("nan")
        cvI = w.cvI
        ev = dict(xu=(xu.copy() if xu is not None else None), f=fraw, cvI=cvI, cvT=cvT, lo=lo, hi=hi)
        completed = w.xu is not None and (exc is None or type(exc).__name__ == "CallbackSuccess")
        if completed:
            run.evals.append(ev)
        mer = []
        if completed and spec is not None and spec.get("hascb") and len(run.evals) <= 60:
            pen = getattr(run, "cur_pen", 0.0)
            mer = [float(e["f"] + pen * (e["cvI"] if e["cvI"] is not None else e["cvT"])) for e in run.evals]
        run.emit("EE", site=w.site, xu=(KL(xu) if xu is not None else []), hasxu=xu is not None,
                 f=K(fraw), cv=K(cvI if cvI is not None else float("nan")), hascv=cvI is not None,
                 cvT=K(cvT), cvLo=K(lo), cvHi=K(hi), truthok=not undefined,
                 out=[K(v) for v in outs], outok=out_ok,
                 exc=(type(exc).__name__ if exc is not None else "none"),
                 nobj=w.obj_calls, completed=completed, merit=KL(mer),
                 ncon=[w.con_calls.get(j, 0) for j in range(len(spec["nl"]) if spec else 0)])

    _wrap_method(P.Problem, "__call__", pc_before, pc_after)

    # ---- ObjectiveFunction.__call__ : the user-space point and raw objective value
    def of_after(run, self, a, kw, ctx, res, exc):
        if run.win and run.win[-1].xu is None:
            try:
                run.win[-1].xu = np.array(a[0], float, copy=True)
                if exc is None:
                    run.win[-1].fI = float(res)
            except Exception:
                pass

    _wrap_method(P.ObjectiveFunction, "__call__", None, of_after)

    # ---- Problem.maxcv : the implementation's violation for the open evaluation
    def mc_before(run, self, a, kw):
        return run.depth

    def mc_after(run, self, a, kw, depth0, res, exc):
        # first direct call made by Problem.__call__ itself
        if run.win and run.win[-1].cvI is None and exc is None and depth0 == run.win[-1].depth:
            try:
                run.win[-1].cvI = float(res)
            except Exception:
                pass

    _wrap_method(P.Problem, "maxcv", mc_before, mc_after)

    # ---- Problem.best_eval : evaluations made while assembling the result
    def be_before(run, self, a, kw):
        run.in_best_eval += 1

    def be_after(run, self, a, kw, ctx, res, exc):
        run.in_best_eval -= 1

    _wrap_method(P.Problem, "best_eval", be_before, be_after)

    # ---- TrustRegion
    def tr_init_before(run, self, a, kw):
        run.fw = self
        run.next_site = "INIT"
        try:
            run.options_ref = a[1] if len(a) > 1 else kw.get("options")
        except Exception:
            pass

    def tr_init_after(run, self, a, kw, ctx, res, exc):
        run.next_site = "NONE"
        if exc is None and "tr" in run.want:
            try:
                mer, vio = _slot_merits(run, self)
                run.emit("Init", radius=K(self.radius), resol=K(self.resolution),
                         rhoend=K(float(run.options_ref["radius_final"])),
                         rhobeg=K(float(run.options_ref["radius_init"])),
                         pen=K(self.penalty), best=int(self.best_index) + 1,
                         npt=int(self.models.npt), merit=KL(mer), mviol=KL(vio),
                         mvhi=KL([v_ + 1e-8 * max(1.0, abs(v_)) for v_ in vio]),
                         mhi=KL([v + _merit_tol(self, mer) for v in mer]))
            except Exception as ex:  # pragma: no cover
                run.emit("RecErr", what="Init:" + type(ex).__name__)

    _wrap_method(FW.TrustRegion, "__init__", tr_init_before, tr_init_after)

    def _merit_tol(fw, mer):
        mb = mer[int(fw.best_index)]
        return 10.0 * EPS * max(fw.models.n, fw.models.npt) * max(abs(mb), 1.0) * 4.0 * (fw.models.npt + 1)

    def trs_before(run, self, a, kw):
        run.next_site = "TR"
        if "tr" in run.want:
            try:
                mer, vio = _slot_merits(run, self)
                run.emit("It", radius=K(self.radius), resol=K(self.resolution),
                         rhoend=K(float(run.options_ref["radius_final"])),
                         pen=K(self.penalty), best=int(self.best_index) + 1,
                         merit=KL(mer), mviol=KL(vio),
                         mvhi=KL([v_ + 1e-8 * max(1.0, abs(v_)) for v_ in vio]),
                         mhi=KL([v + _merit_tol(self, mer) for v in mer]),
                         penok=bool(math.isfinite(self.penalty) and self.penalty >= 0.0))
            except Exception as ex:  # pragma: no cover
                run.emit("RecErr", what="It:" + type(ex).__name__)
        else:
            run.emit("It")

    def trs_after(run, self, a, kw, ctx, res, exc):
        pass

    _wrap_method(FW.TrustRegion, "get_trust_region_step", trs_before, trs_after)

    def soc_before(run, self, a, kw):
        run.next_site = "SOC"

    _wrap_method(FW.TrustRegion, "get_second_order_correction_step", soc_before, None)

    def geo_before(run, self, a, kw):
        run.next_site = "GEO"
        if "tr" in run.want:
            run.emit("Geo", k=int(a[0]) + 1, best=int(self.best_index) + 1)

    _wrap_method(FW.TrustRegion, "get_geometry_step", geo_before, None)

    def enh_before(run, self, a, kw):
        return (float(self.resolution), float(self.radius))

    def enh_after(run, self, a, kw, ctx, res, exc):
        if "tr" in run.want:
            run.emit("Enh", rb=K(ctx[0]), ra=K(self.resolution), radb=K(ctx[1]), rada=K(self.radius),
                     rhoend=K(float(run.options_ref["radius_final"])))

    _wrap_method(FW.TrustRegion, "enhance_resolution", enh_before, enh_after)

    def upr_before(run, self, a, kw):
        return (float(self.radius), float(self.resolution))

    def upr_after(run, self, a, kw, ctx, res, exc):
        if "tr" in run.want:
            run.emit("UpR", radb=K(ctx[0]), rada=K(self.radius), resol=K(self.resolution),
                     ratio=K(float(a[1]) if len(a) > 1 else float("nan")))

    _wrap_method(FW.TrustRegion, "update_radius", upr_before, upr_after)

    def pen_before(run, self, a, kw):
        return float(self.penalty)

    def incp_after(run, self, a, kw, ctx, res, exc):
        if "tr" in run.want:
            run.emit("Pen", kind="inc", pb_=K(ctx), pa=K(self.penalty),
                     ok=bool(math.isfinite(self.penalty) and self.penalty >= 0.0))

    def decp_after(run, self, a, kw, ctx, res, exc):
        if "tr" in run.want:
            run.emit("Pen", kind="dec", pb_=K(ctx), pa=K(self.penalty),
                     ok=bool(math.isfinite(self.penalty) and self.penalty >= 0.0))

    _wrap_method(FW.TrustRegion, "increase_penalty", pen_before, incp_after)
    _wrap_method(FW.TrustRegion, "decrease_penalty", pen_before, decp_after)

    # ---- Models
    def md_init_after(run, self, a, kw, ctx, res, exc):
        run.models = self
        if exc is None and "interp" in run.want:
            try:
                itp = self.interpolation
                run.emit("MInit", pts=[KL(itp.point(k)) for k in range(self.npt)], fvals=KL(self.fun_val))
            except Exception as ex:  # pragma: no cover
                run.emit("RecErr", what="MInit:" + type(ex).__name__)
            _emit_interp(run, self, "MInit", -1)

    def _emit_interp(run, models, what, k):
        try:
            res, scale = _interp_resid(run, models)
            cond = _cond_estimate(models)
            # rounding errors made earlier persist in the models: the tolerance follows the largest
            # conditioning and the largest recorded magnitude seen so far in this run
            run.cond_max = max(getattr(run, "cond_max", 1.0), cond)
            sm = getattr(run, "scale_max", None)
            if sm is None or len(sm) != len(scale):
                sm = list(scale)
            sm = [max(a, b) for a, b in zip(sm, scale)]
            run.scale_max = sm
            c = min(run.cond_max, 1e15)
            tol = [float(500.0 * EPS * max(models.n, models.npt) * c * s) for s in sm]
            run.emit("Interp", what=what, k=k + 1, resid=KL(res), tol=KL(tol), cond=K(cond),
                     illskip=bool(run.cond_max > 1e13))
            # the views of the objective model are those of one quadratic (C13)
            itp = models.interpolation
            v = itp.xpt[:, min(1, models.npt - 1)] + 0.5 * itp.xpt[:, 0] + 1e-3 * np.max(np.abs(itp.xpt), initial=1.0)
            Hm = models.fun_hess()
            hp = models.fun_hess_prod(v)
            e1 = float(np.max(np.abs(Hm @ v - hp), initial=0.0))
            e2 = abs(float(models.fun_curv(v)) - float(v @ hp))
            x = itp.point(0)
            g0 = models.fun_grad(itp.x_base)
            e3 = float(np.max(np.abs(models.fun_grad(x) - (g0 + models.fun_hess_prod(x - itp.x_base))), initial=0.0))
            hs = float(np.max(np.abs(Hm), initial=0.0))
            try:   # the two parts of the Hessian may cancel: rounding is relative to their sizes
                q = models._fun
                hs = max(hs, float(np.max(np.abs(q._e_hess), initial=0.0))
                         + float(np.sum(np.abs(q._i_hess) * np.sum(itp.xpt ** 2, axis=0))))
            except Exception:
                pass
            vn = float(np.linalg.norm(v))
            t1 = 1e3 * EPS * max(models.n, 1) * (hs * vn + 1e-300)
            t2 = 1e3 * EPS * max(models.n, 1) * (hs * vn * vn + 1e-300)
            t3 = 1e3 * EPS * max(models.n, 1) * (float(np.max(np.abs(g0), initial=0.0)) + hs * float(np.linalg.norm(x - itp.x_base)) + 1e-300)
            run.emit("Views", err=KL([e1, e2, e3]), tol=KL([t1, t2, t3]))
        except Exception as ex:  # pragma: no cover
            run.emit("RecErr", what="Interp:" + type(ex).__name__)

    _wrap_method(MD.Models, "__init__", None, md_init_after)

    def qupd_before(run, self, a, kw):
        run.qupd = getattr(run, "qupd", 0) + 1

    _wrap_method(MD.Quadratic, "update", qupd_before, None)

    def upd_before(run, self, a, kw):
        fw = run.fw
        best = int(fw.best_index) + 1 if fw is not None and hasattr(fw, "_best_index") else 0
        run.qupd = 0
        return best

    def upd_after(run, self, a, kw, best, res, exc):
        k = int(a[0])
        site = run.next_site
        if "tr" in run.want:
            # the value recorded in the slot vs the value returned by the evaluation
            run.emit("Upd", k=k + 1, best=best, site=site, nupd=int(getattr(run, "qupd", 0)),
                     nmodels=int(1 + self.m_nonlinear_ub + self.m_nonlinear_eq),
                     exc=(type(exc).__name__ if exc is not None else "none"),
                     fval=K(float(a[2])), frec=K(float(self.fun_val[k])), x=KL(a[1]))
        if exc is None and "interp" in run.want:
            _emit_interp(run, self, "Upd", k)

    _wrap_method(MD.Models, "update_interpolation", upd_before, upd_after)

    def _probe_vals(models):
        """values of every model at the interpolation points and at two extra probes (absolute)"""
        itp = models.interpolation
        pts = [itp.point(k).copy() for k in range(models.npt)]
        c = np.mean(pts, axis=0)
        pts += [c, 2.0 * pts[0] - c]
        out = []
        for p in pts:
            out.append([float(models.fun(p))] + [float(v) for v in models.cub(p)] + [float(v) for v in models.ceq(p)])
        return np.array(out, float)

    def shift_before(run, self, a, kw):
        if "interp" in run.want:
            try:
                return _probe_vals(self)
            except Exception:
                return None
        return None

    def shift_after(run, self, a, kw, before, res, exc):
        if exc is None and "interp" in run.want:
            _emit_interp(run, self, "Shift", -1)
            try:
                if before is not None:
                    after = _probe_vals(self)
                    cond = min(getattr(run, "cond_max", 1.0), 1e15)
                    sc = np.maximum(np.max(np.abs(before), axis=0), 1.0)
                    sm = getattr(run, "scale_max", None)
                    if sm is not None and len(sm) == sc.size:
                        sc = np.maximum(sc, np.array(sm))
                    err = np.max(np.abs(after - before), axis=0)
                    tol = 2000.0 * EPS * max(self.n, self.npt) * cond * sc
                    run.emit("ShiftInv", err=KL(err), tol=KL(tol), skip=bool(getattr(run, "cond_max", 1.0) > 1e13))
            except Exception as ex:  # pragma: no cover
                run.emit("RecErr", what="ShiftInv:" + type(ex).__name__)

    _wrap_method(MD.Models, "shift_x_base", shift_before, shift_after)

    # ---- Models.determinants: the one-index and the all-indices answers must agree (C14)
    def det_after(run, self, a, kw, ctx, res, exc):
        if exc is not None or "interp" not in run.want or getattr(run, "_in_det", False):
            return
        k = a[1] if len(a) > 1 else kw.get("k_new")
        if k is None:
            return
        run._in_det = True
        try:
            allk = MD.Models.determinants(self, a[0])
            one, other = float(res), float(allk[int(k)])
            cond = _cond_estimate(self)
            den = max(abs(one), abs(other), 1.0)      # sigma = alpha beta + tau^2 may cancel: absolute scale 1
            # both answers solve the same systems: they differ by rounding amplified by the conditioning
            run.emit("Dets", rel=K(abs(one - other) / den), tol=K(min(1e4 * EPS * max(cond, 1.0), 1e-2)),
                     skip=bool(not (math.isfinite(one) and math.isfinite(other)) or cond > 1e10))
        except Exception as ex:  # pragma: no cover
            run.emit("RecErr", what="Dets:" + type(ex).__name__)
        finally:
            run._in_det = False

    _wrap_method(MD.Models, "determinants", None, det_after)

    def reset_after(run, self, a, kw, ctx, res, exc):
        if exc is None and "interp" in run.want:
            _emit_interp(run, self, "Reset", -1)

    _wrap_method(MD.Models, "reset_models", None, reset_after)

    # ---- the five subproblem solvers as the framework calls them (C15 / C16 on real-run inputs)
    def _wrap_sub(name, kind):
        orig = getattr(FW, name)
        if getattr(orig, "_verif_wrapped", False):
            return

        @functools.wraps(orig)
        def wrapper(*a, **kw):
            run = cur()
            if run is None or "sub" not in run.want:
                return orig(*a, **kw)
            args = [np.array(x, float, copy=True) if isinstance(x, np.ndarray) else x for x in a]
            exc = "none"
            s = None
            try:
                s = orig(*a, **kw)
                return s
            except BaseException as ex:
                exc = type(ex).__name__
                raise
            finally:
                try:
                    from . import subrec
                    rec = subrec.measure(kind, args, kw, s, exc)
                    if rec is not None:
                        if not hasattr(run, "subcalls"):
                            run.subcalls = []
                        if len(run.subcalls) < 400:
                            run.subcalls.append(rec)
                except Exception as ex2:  # pragma: no cover
                    run.emit("RecErr", what="Sub:" + type(ex2).__name__)

        wrapper._verif_wrapped = True
        setattr(FW, name, wrapper)

    for _n, _k in (("tangential_byrd_omojokun", "tangential"),
                   ("constrained_tangential_byrd_omojokun", "constrained_tangential"),
                   ("normal_byrd_omojokun", "normal"), ("cauchy_geometry", "cauchy_geometry"),
                   ("spider_geometry", "spider_geometry")):
        _wrap_sub(_n, _k)

    _installed[0] = True


# ------------------------------------------------------------------ recording a call
def _digest(obj):
    """Structural digest of an argument for the purity clause of C11."""
    import hashlib

    h = hashlib.sha256()

    def walk(o):
        if isinstance(o, np.ndarray):
            h.update(b"A" + str(o.dtype).encode() + str(o.shape).encode() + o.tobytes())
        elif isinstance(o, (list, tuple)):
            h.update(b"L" if isinstance(o, list) else b"T")
            for v in o:
                walk(v)
        elif isinstance(o, dict):
            h.update(b"D")
            for k in sorted(o, key=str):
                h.update(str(k).encode())
                walk(o[k])
        elif hasattr(o, "lb") and hasattr(o, "ub") and not callable(o):
            h.update(b"B")
            walk(np.asarray(o.lb))
            walk(np.asarray(o.ub))
            if hasattr(o, "A"):
                walk(np.asarray(o.A))
        elif callable(o):
            h.update(b"F")
        else:
            h.update(repr(o).encode())

    walk(obj)
    return h.hexdigest()[:12]


def _cb_sig(cb):
    if cb is None:
        return "none"
    try:
        return "kw" if set(inspect.signature(cb).parameters) == {"intermediate_result"} else "pos"
    except Exception:
        return "pos"


def _enh_bound(run, constants):
    """Bound on the number of resolution reductions: logarithm of rhobeg / rhoend (0 = none)."""
    o = run.options_ref
    try:
        rb, re_ = float(o["radius_init"]), float(o["radius_final"])
        if not (re_ > 0.0 and rb >= re_):
            return 0
        fac = float(constants.get("decrease_resolution_factor", 0.1))
        return int(math.ceil(math.log(rb / re_) / math.log(1.0 / fac))) + 3
    except Exception:
        return 0


def record_call(fun, x0, args=(), bounds=None, constraints=(), callback=None, options=None,
                constants=None, want=(), timeout=120.0, meta=None, use_alarm=True):
    """Run cobyqa.minimize under observation. Returns the trace dict (floats as K)."""
    install()
    import cobyqa
    import signal
    import warnings

    with _glock:
        _run_counter[0] += 1
        rid = _run_counter[0]
    run = Run(rid, want)
    constants = dict(constants or {})
    x0a = np.atleast_1d(np.asarray(x0, float))
    n_orig = len(x0) if hasattr(x0, "__len__") else 1
    lin, nl = truth.expand_constraints(constraints)
    try:
        lb, ub = truth.norm_bounds(bounds, n_orig)
    except Exception:
        lb, ub = np.full(n_orig, -np.inf), np.full(n_orig, np.inf)
    run.spec = {"lb": lb, "ub": ub, "lin": lin, "nl": nl, "hascb": callback is not None}

    # spies
    sfun = _spy_obj(run, fun)
    scb = _spy_cb(run, callback)
    from scipy.optimize import NonlinearConstraint

    cons_in = constraints
    if isinstance(cons_in, dict) or not hasattr(cons_in, "__len__"):
        cons_list = [cons_in]
        single = True
    else:
        cons_list = list(cons_in)
        single = False
    new_cons = []
    j = 0
    for c in cons_list:
        if isinstance(c, NonlinearConstraint):
            new_cons.append(NonlinearConstraint(_spy_con(run, j, c.fun), c.lb, c.ub))
            j += 1
        elif isinstance(c, dict):
            d = dict(c)
            d["fun"] = _spy_con(run, j, c["fun"])
            new_cons.append(d)
            j += 1
        else:
            new_cons.append(c)
    cons_arg = new_cons[0] if single else (new_cons if isinstance(cons_in, list) else tuple(new_cons))

    opts_in = None if options is None else dict(options)
    dig_before = {"x0": _digest(x0), "bounds": _digest(bounds), "cons": _digest(constraints),
                  "args": _digest(args), "options": _digest(options)}

    _stack().append(run)
    t0 = time.time()
    old = None
    armed = False
    if use_alarm and threading.current_thread() is threading.main_thread() and len(_stack()) == 1:
        def _h(sig, frm):
            raise Hang()
        try:
            # CPU time of this process, not wall-clock time: a loop that never ends burns CPU, while a machine
            # that is merely overloaded must not turn a 0.1 s run into a "hang" (met once, DESIGN 9.4)
            old = signal.signal(signal.SIGPROF, _h)
            signal.setitimer(signal.ITIMER_PROF, timeout)
            armed = True
        except Exception:
            armed = False
    res = None
    exc = None
    wlist = []
    import contextlib
    import io
    sink = io.StringIO()
    quiet = contextlib.redirect_stdout(sink) if (options or {}).get("disp") else contextlib.nullcontext()
    try:
        with warnings.catch_warnings(record=True) as wl, quiet:
            warnings.simplefilter("always")
            res = cobyqa.minimize(sfun, x0, args=args, bounds=bounds, constraints=cons_arg,
                                  callback=scb, options=options, **constants)
            wlist = [(w.category.__name__, str(w.message)) for w in wl]
    except Hang:
        exc = "Hang"
    except BaseException as ex:
        exc = type(ex).__name__
        run.exc_msg = str(ex)[:200]
    finally:
        if armed:
            signal.setitimer(signal.ITIMER_PROF, 0)
            signal.signal(signal.SIGPROF, old)
        _stack().pop()
    wall = time.time() - t0
    dig_after = {"x0": _digest(x0), "bounds": _digest(bounds), "cons": _digest(constraints),
                 "args": _digest(args), "options": _digest(options)}

    # completed options as the solver used them (fallback: documented defaults)
    n_free = int(np.count_nonzero(~((lb <= ub) & (np.abs(lb - ub) < 10 * EPS * max(n_orig, 1) *
                 max(1.0, float(np.max(np.abs(lb[np.isfinite(lb)]), initial=1.0)),
                     float(np.max(np.abs(ub[np.isfinite(ub)]), initial=1.0)))))))
    o = dict(opts_in or {})
    used = run.options_ref if isinstance(run.options_ref, dict) else {}
    npt = int(used.get("nb_points", o.get("nb_points", 2 * n_free + 1)))
    maxfev = int(used.get("maxfev", o.get("maxfev", max(500 * n_free, npt + 1))))
    maxiter = int(used.get("maxiter", o.get("maxiter", 1000 * n_free)))
    tol = float(o.get("feasibility_tol", math.sqrt(EPS)))
    target = float(o.get("target", -np.inf))
    hs = o.get("history_size", None)
    fs = o.get("filter_size", None)
    BAR = 2.0 ** 100
    hdr = dict(
        rid=rid, n=n_orig, nfree=n_free, hasobj=fun is not None, ncon=len(nl),
        hascb=callback is not None,
        lb=KL(lb), ub=KL(ub), consistent=truth.bounds_consistent(lb, ub),
        fixed=[bool(lb[i] == ub[i]) for i in range(n_orig)],
        allfixed=bool(n_free == 0),
        maxfev=maxfev, maxiter=maxiter, npt=npt,
        hsize=(int(hs) if hs is not None and hs < 2 ** 30 else 0),
        fsize=(int(fs) if fs is not None and fs < 2 ** 30 else 0),
        store=bool(o.get("store_history", False)), scale=bool(o.get("scale", False)),
        kZero=K(0.0), kTol=K(tol), kTarget=K(target), kPInf=K(np.inf), kNInf=K(-np.inf),
        kBarP=K(BAR), kBarN=K(-BAR), kNaN=K(float("nan")),
        wall=round(wall, 3), meta=meta or {},
        cbsig=_cb_sig(callback), valid=bool((meta or {}).get("valid", True)),
        enhBound=_enh_bound(run, constants),
        pure=all(dig_before[k] == dig_after[k] for k in dig_before),
        impure=[k for k in dig_before if dig_before[k] != dig_after[k]],
    )
    # final event
    if exc is not None:
        run.emit("Raise", type=exc, msg=getattr(run, "exc_msg", ""))
    else:
        fw = run.fw
        try:
            status = int(res.status)
            msg = str(res.message)
            midx = next((k for k, v in MESSAGES.items() if v == msg), -99)
            x = np.atleast_1d(np.asarray(res.x, float))
            well = (isinstance(res.success, (bool, np.bool_)) and x.ndim == 1 and x.size == n_orig
                    and isinstance(res.nfev, (int, np.integer)) and isinstance(res.nit, (int, np.integer))
                    and all(hasattr(res, k) for k in ("message", "success", "status", "x", "fun", "maxcv", "nfev", "nit")))
            pen = float(fw.penalty) if (fw is not None and hasattr(fw, "_penalty")) else 0.0
            # penalty actually passed to the result assembly: 0.0 when the loop was never entered
            if fw is None or not hasattr(fw, "_radius"):
                pen = 0.0
            mer = [float(e["f"] + pen * (e["cvI"] if e["cvI"] is not None else e["cvT"])) for e in run.evals]
            hf = list(np.asarray(getattr(res, "fun_history", []), float).ravel())
            hc = list(np.asarray(getattr(res, "maxcv_history", []), float).ravel())
            resol = float(fw.resolution) if (fw is not None and hasattr(fw, "_resolution")) else float("nan")
            rhoend = float(run.options_ref["radius_final"]) if isinstance(run.options_ref, dict) and "radius_final" in run.options_ref else float("nan")
            run.emit("Res", status=status, midx=midx, success=bool(res.success), x=KL(x),
                     f=K(float(res.fun)), cv=K(float(res.maxcv)), nfev=int(res.nfev), nit=int(res.nit),
                     well=bool(well), hashist=hasattr(res, "fun_history"),
                     hf=KL(hf), hc=KL(hc), merit=KL(mer), pen=K(pen),
                     resol=K(resol), rhoend=K(rhoend), hasfw=bool(fw is not None and hasattr(fw, "_resolution")))
        except Exception as ex:
            run.emit("Res", status=-99, midx=-99, success=False, x=[], f=K(float("nan")), cv=K(float("nan")),
                     nfev=-1, nit=-1, well=False, hashist=False, hf=[], hc=[], merit=[], pen=K(0.0),
                     resol=K(float("nan")), rhoend=K(float("nan")), hasfw=False, recerr=type(ex).__name__)
    hdr["warnings"] = [w for w in wlist][:5]
    return {"hdr": hdr, "ev": run.events, "result": res, "exc": exc, "evals": run.evals,
            "sub": getattr(run, "subcalls", [])}
