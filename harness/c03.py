"""C03: the returned point is the best point evaluated.

D  Filter.tla exhaustively (abstract extended integers): the implementation-shaped filter always
   selects an Acceptable evaluation; the original insertion rule ("pinned") must be rejected.
R  every exported history (all of a small length, simulated longer ones) is fed to a real
   cobyqa.problem.Problem; best_eval(penalty) must pick a member of the Acceptable set computed
   by TLC, for every penalty and tolerance.
T  every recorded run of the 'Runs' universe: the returned evaluation is Acceptable (clause C03.best).
"""
import json
import math
import multiprocessing as mp
import os
import time

import numpy as np

from . import checks
from .common import OUT, Machinery, Verdict, run_tlc, write_cfg, write_evidence, seed, NCPU

NAN, PINF, NINF = -1000000, 1000, -1000


def _val(k):
    return float("nan") if k == NAN else (float("inf") if k == PINF else (float("-inf") if k == NINF else float(k)))


def _consts(fdom, cvdom, size, maxlen, rule="nanaware"):
    return dict(FDom="<-" + fdom, CVDom="<-" + cvdom, Penalties="<-Pen012", Tols="<-Tol01",
                FilterSize=size, MaxLen=maxlen, Rule=rule)


INV = ["RetainedAreEvaluations", "NonEmptyAfterFirst", "SizeRespected", "NoRetainedDominated",
       "BestAcceptableAll", "BestAcceptableRetained"]


def design(tier):
    states = trans = 0
    runs = []
    maxlen = 5 if tier == "thorough" else 4
    plan = [("FDomFull", "CVDomFull", 0, maxlen)] + [("FDomFull", "CVDomFull", s, 4 if tier == "thorough" else 3)
                                                    for s in (1, 2, 3)]
    for i, (fd, cd, size, ml) in enumerate(plan):
        cfg = write_cfg(os.path.join(OUT, f"c03-d{i}.cfg"), spec="FSpec", constants=_consts(fd, cd, size, ml),
                        invariants=INV)
        r = run_tlc("MCFilter", cfg, tag=f"c03-d{i}", timeout=3600)
        if r["violated"]:
            raise Machinery(f"Filter.tla violates {r['violated']} (size {size}, len {ml})\n" + r["out"][-3000:])
        states += r["distinct"]
        trans += r["generated"]
        runs.append({"filter_size": size, "max_len": ml, "states": r["distinct"]})
    # named deviation: the original insertion test must be rejected
    cfg = write_cfg(os.path.join(OUT, "c03-dev.cfg"), spec="FSpec",
                    constants=_consts("FDomFull", "CVDomFull", 0, 3, "pinned"), invariants=["BestAcceptableAll"])
    r = run_tlc("MCFilter", cfg, tag="c03-dev")
    if r["violated"] != "BestAcceptableAll":
        raise Machinery("the original ('pinned') insertion rule is not rejected: clause vacuous")
    return {"states": states, "transitions": trans, "runs": runs,
            "deviations_rejected": ["insertion test compares with '<' against retained NaN entries"]}


def _export(fd, cd, size, maxlen, simulate=None, tag="x"):
    cfg = write_cfg(os.path.join(OUT, f"c03-e{tag}.cfg"), spec="FSpec", constants=_consts(fd, cd, size, maxlen),
                    invariants=["Export"])
    kw = {}
    if simulate:
        kw = dict(simulate=f"num={simulate}", depth=maxlen + 1, seed_=seed() + 17)
    r = run_tlc("MCFilter", cfg, tag=f"c03-e{tag}", timeout=3600, workers=(1 if simulate else None), **kw)
    recs = []
    for line in r["out"].splitlines():
        if line.startswith('"EXPORT '):
            recs.append(json.loads(line[8:-1].replace('\\"', '"')))
    return recs, r


def _replay_chunk(args):
    recs, size = args
    os.environ["OPENBLAS_NUM_THREADS"] = "1"
    import sys
    from .common import import_cobyqa
    import_cobyqa()
    from cobyqa.problem import (ObjectiveFunction, BoundConstraints, LinearConstraints,
                                NonlinearConstraints, Problem)
    from scipy.optimize import Bounds, NonlinearConstraint
    bad = []
    diag = 0
    nchk = 0
    for rec in recs:
        F = [_val(k) for k in rec["F"]]
        CV = [_val(k) for k in rec["CV"]]
        for tol_s, _ in rec["sel"]["0"].items():
            tol = float(tol_s)
            it = {"i": 0}

            def fun(x):
                return F[int(round(x[0])) - 1]

            def con(x):
                return CV[int(round(x[0])) - 1]

            obj = ObjectiveFunction(fun, False, False)
            pb = Problem(obj, np.array([1.0]), BoundConstraints(Bounds([-np.inf], [np.inf])),
                         LinearConstraints([], 1, False),
                         NonlinearConstraints([NonlinearConstraint(con, -np.inf, 0.0)], False, False),
                         None, tol, False, False, 1, (size if size > 0 else sys.maxsize), False)
            for i in range(len(F)):
                pb(np.array([float(i + 1)]))
            for p_s in rec["sel"]:
                exp = rec["sel"][p_s][tol_s]
                x, f, c = pb.best_eval(float(p_s))
                got = int(round(float(x[0])))
                nchk += 1
                same = (f == F[got - 1] or (math.isnan(f) and math.isnan(F[got - 1])))
                if got not in exp["acc"] or not same:
                    bad.append({"F": rec["F"], "CV": rec["CV"], "penalty": int(p_s), "tol": int(tol_s),
                                "filter_size": size, "selected": got, "acceptable": exp["acc"],
                                "spec_choice": exp["best"]})
                elif got != exp["best"]:
                    diag += 1
    return bad, diag, nchk


def replay(tier, verdict):
    plans = [("FDomFull", "CVDomFull", 0, 4 if tier == "thorough" else 3, None),
             ("FDomFull", "CVDomFull", 1, 3, None), ("FDomFull", "CVDomFull", 2, 3, None),
             ("FDomSmall", "CVDomSmall", 3, 5 if tier == "thorough" else 4, None),
             ("FDomFull", "CVDomFull", 0, 10, 3000 if tier == "thorough" else 600),
             ("FDomFull", "CVDomFull", 3, 10, 2000 if tier == "thorough" else 400)]
    total = nchk = diag = 0
    samples = []
    states = 0
    for i, (fd, cd, size, ml, sim) in enumerate(plans):
        recs, r = _export(fd, cd, size, ml, sim, tag=str(i))
        if not recs:
            raise Machinery("no behaviours exported by TLC")
        states += r["distinct"]
        total += len(recs)
        if len(samples) < 3:
            samples.append({"history_f": recs[-1]["F"], "history_cv": recs[-1]["CV"], "filter_size": size,
                            "acceptable": recs[-1]["sel"]["1"]["0"]["acc"]})
        n = max(1, len(recs) // (4 * NCPU))
        chunks = [(recs[j:j + n], size) for j in range(0, len(recs), n)]
        with mp.get_context("fork").Pool(NCPU) as pool:
            for bad, dg, nc in pool.imap_unordered(_replay_chunk, chunks):
                diag += dg
                nchk += nc
                for b in bad:
                    verdict.add("C03.replay", f"F={b['F']} CV={b['CV']} p={b['penalty']} tol={b['tol']} size={b['filter_size']}", b)
    return {"behaviours_replayed": total, "selections_checked": nchk, "choice_differs_from_spec_function": diag,
            "export_states": states, "samples": samples}


def check(pid, tier):
    t0 = time.time()
    v = Verdict("C03")
    d = design(tier)
    r = replay(tier, v)
    cov = checks.trace_part("C03", "Runs", 400, (), tier if tier == "quick" else "quick4", v)
    cov["design"] = d
    cov["replay"] = r
    cov["states"] += d["states"] + r["export_states"]
    cov["transitions"] += d["transitions"]
    cov["samples"] = cov["samples"] + r["samples"]
    rc = v.finish()
    write_evidence("C03", tier, "model_checking", cov, time.time() - t0, len(v.violations),
                   checks.ASSUME_T + ["abstract value domain {NaN,-inf,0,1,+inf} x {NaN,0,1,2,+inf}, penalties {0,1,2}, tolerances {0,1}, histories of length <= 5 exhaustively (<= 10 simulated)"])
    return rc
