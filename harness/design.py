"""Design-level model checking (D): TLC on the specification itself, small constants.
A failure here is a fault of the specification, i.e. machinery (exit 2), never a VIOLATION."""
import os

from .common import OUT, Machinery, run_tlc, write_cfg


def check(pid, tier):
    return {}
