"""Design-level model checking (D): TLC on spec/Cobyqa.tla, spec/Filter.tla, ... with small constants.

A failure of the design model is a fault of the specification, i.e. machinery (exit 2), never a
VIOLATION of the code.  Besides the faithful model, each *named deviation* (the behaviour of the
tree before a repair, or a plausible mutation of a rule) is checked and MUST be rejected by the
clause it is meant to exercise: this is the sanity / non-vacuity test of the clauses."""
import concurrent.futures as cf
import itertools
import os

from .common import OUT, Machinery, run_tlc, write_cfg, seed, NCPU

BASE = dict(MaxFev=4, MaxIter=2, Npt=3, HasObj=True, NCon=1, HasCb=True, Consistent=True,
            AllFixed=False, TargetKey=0, FVals="<-FV2", CVals="<-CV2", SamplingBudgetStatus=5,
            CountInObjective=False, CallbackFirst=False, EscapeAtResult=False,
            Store=True, HSize=2, HistKeepsOldest=False)

# deviation -> (constant overrides, clause prefix that must fail)
DEVIATIONS = {
    "sampling budget reported as iterations": (dict(SamplingBudgetStatus=6, MaxFev=2), "C07"),
    "evaluations counted in the objective only": (dict(CountInObjective=True, HasObj=False), "C05"),
    "callback before the filter update": (dict(CallbackFirst=True), "C20"),
    "CallbackSuccess escapes from result assembly": (dict(EscapeAtResult=True, Consistent=False), "C08"),
    "history truncation keeps the oldest entries": (dict(HistKeepsOldest=True, HSize=2, Store=True), "C05"),
}

DEV_FOR = {"C07": ["sampling budget reported as iterations"],
           "C05": ["evaluations counted in the objective only", "history truncation keeps the oldest entries"],
           "C09": ["evaluations counted in the objective only"],
           "C20": ["callback before the filter update"],
           "C08": ["CallbackSuccess escapes from result assembly"]}


def _configs(tier):
    cfgs = []
    for hasobj, ncon, hascb, tgt, (cons, fixed) in itertools.product(
            (True, False), (0, 1, 2), (True, False), (0, "<-NeverTarget"),
            ((True, False), (False, False), (True, True))):
        for maxfev, npt, maxiter in ((1, 2, 1), (2, 3, 2), (3, 3, 2), (4, 3, 2), (5, 3, 3), (5, 2, 3)):
            cfgs.append(dict(BASE, HasObj=hasobj, NCon=ncon, HasCb=hascb, TargetKey=tgt, Consistent=cons,
                             AllFixed=fixed, MaxFev=maxfev, Npt=npt, MaxIter=maxiter,
                             Store=(maxfev % 2 == 0), HSize=(0 if maxfev == 4 else 2),
                             FVals="<-FV3" if maxfev <= 3 else "<-FV2",
                             CVals="<-CV3" if maxfev <= 2 else "<-CV2"))
    if tier == "thorough":
        return cfgs
    # quick: a fixed spread plus a seed-dependent few
    import random
    rnd = random.Random(seed())
    pick = [c for c in cfgs if c["MaxFev"] == 4 and c["Consistent"] and not c["AllFixed"]][:6]
    pick += [c for c in cfgs if (not c["Consistent"] or c["AllFixed"]) and c["MaxFev"] == 2][:4]
    pick += rnd.sample(cfgs, 6)
    return pick


def _run(i, consts, invariants, properties, workers, tag):
    cfg = write_cfg(os.path.join(OUT, f"design-{tag}-{i}.cfg"), spec="Spec", constants=consts,
                    invariants=invariants, properties=properties)
    r = run_tlc("MCCobyqa", cfg, workers=workers, tag=f"design-{tag}-{i}", timeout=1800)
    os.remove(cfg)
    return r


def check(pid, tier):
    """Model check the life-cycle design for property pid. Returns coverage dict."""
    inv = [f"D_{pid}", "Budget"] if pid in ("C01", "C02", "C03", "C05", "C06", "C07", "C08", "C09", "C20") else ["NoViolation"]
    props = ["Terminates"] if pid == "C08" else []
    cfgs = _configs(tier)
    tag = f"{pid}-{os.getpid()}"
    states = trans = 0
    with cf.ThreadPoolExecutor(max_workers=max(1, NCPU // 2)) as ex:
        futs = [ex.submit(_run, i, c, inv, props, 2, tag) for i, c in enumerate(cfgs)]
        for f, c in zip(futs, cfgs):
            r = f.result()
            if r["violated"]:
                raise Machinery(f"design model violates {r['violated']} with constants {c}:\n"
                                + r["out"][r["out"].find("Error:"):][:3000])
            states += r["distinct"]
            trans += r["generated"]
    rejected = []
    for name in DEV_FOR.get(pid, []):
        over, clause = DEVIATIONS[name]
        r = _run(900, dict(BASE, **over), [f"D_{clause}"], [], 4, tag)
        if not r["violated"]:
            raise Machinery(f"named deviation '{name}' is NOT rejected by clause {clause}: the clause is vacuous")
        rejected.append(name)
    # vacuity: per-action coverage over two representative configurations (normal run; a run that
    # ends before the sampling).  "Escaped" only exists in the EscapeAtResult deviation.
    cov = {}
    import re as _re
    for ci, over in enumerate((dict(), dict(Consistent=False, MaxFev=2))):
        cfg = write_cfg(os.path.join(OUT, f"design-{tag}-cov.cfg"), spec="Spec", constants=dict(BASE, **over), invariants=inv)
        r = run_tlc("MCCobyqa", cfg, workers=2, tag=f"design-{tag}-cov{ci}", coverage=True, timeout=900)
        for m in _re.finditer(r"<(\w+) line \d+, col \d+ to line \d+, col \d+ of module Cobyqa>: (\d+):(\d+)", r["out"]):
            cov[m.group(1)] = cov.get(m.group(1), 0) + int(m.group(3))
        os.remove(cfg)
    never = sorted(a for a, n in cov.items() if n == 0 and a != "Escaped")
    if never or not cov:
        raise Machinery(f"design model: actions never taken: {never} (coverage {cov})")
    return {"states": states, "transitions": trans, "configurations": len(cfgs), "action_coverage": cov,
            "invariants": inv + props, "deviations_rejected": rejected,
            "sample_constants": {k: v for k, v in cfgs[0].items()}}
