"""The user's statement of a problem evaluated independently of cobyqa (trusted base, DESIGN 2.4).

true_violation: largest amount by which bounds / linear rows / nonlinear values leave their
intervals at a user-space point, with a rounding band.  Written from the documentation:
NaN limits mean "no limit", NaN coefficients count as 0, infinite limits are dropped.
"""
import math

import numpy as np

EPS = np.finfo(float).eps


def _lim(v, default):
    v = float(v)
    return default if math.isnan(v) else v


def norm_bounds(bounds, n):
    """(lb, ub) float arrays with NaN -> -inf/+inf; accepts Bounds, (n,2) array-like, None."""
    if bounds is None:
        return np.full(n, -np.inf), np.full(n, np.inf)
    if hasattr(bounds, "lb") and hasattr(bounds, "ub"):
        lb = np.array(np.broadcast_to(np.asarray(bounds.lb, float), (n,)), float)
        ub = np.array(np.broadcast_to(np.asarray(bounds.ub, float), (n,)), float)
    else:
        b = np.asarray(bounds, float)
        lb, ub = np.array(b[:, 0]), np.array(b[:, 1])
    lb[np.isnan(lb)] = -np.inf
    ub[np.isnan(ub)] = np.inf
    return lb, ub


def bounds_consistent(lb, ub):
    return bool(np.all(lb <= ub) and np.all(lb < np.inf) and np.all(ub > -np.inf))


def _interval_components(vals, lo, hi, mag):
    """Components (value, err) of max(lo - v, v - hi) for finite limits.
    vals, lo, hi: 1-d arrays of equal length; mag: magnitude used for the rounding band."""
    comps = []
    m = len(vals)
    for i in range(m):
        v = vals[i]
        l = _lim(lo[i], -np.inf)
        u = _lim(hi[i], np.inf)
        base = 8.0 * EPS * (mag[i] + (abs(l) if math.isfinite(l) else 0.0)
                            + (abs(u) if math.isfinite(u) else 0.0))
        # a component that the solver may treat as an equality (limits equal up to the
        # documented tolerance) is measured from the midpoint internally
        slack = 0.0
        if math.isfinite(l) and math.isfinite(u) and l <= u:
            w = 10.0 * EPS * max(m, 1) * max(1.0, abs(l), abs(u))
            if abs(u - l) <= 4.0 * w:
                slack = abs(u - l)
        if math.isfinite(l):
            comps.append((l - v, base + slack))
        if math.isfinite(u):
            comps.append((v - u, base + slack))
    return comps


def true_violation(x, lb, ub, linear, nonlinear_vals):
    """x: user-space point. lb/ub: normalised bounds. linear: list of (A, l, u) arrays.
    nonlinear_vals: list of (values 1-d array, l, u) with l,u broadcast to the values.
    Returns (cv, lo, hi): the true maximum violation and its rounding band (NaN if undefined)."""
    x = np.asarray(x, float)
    n = x.size
    comps = []
    xmag = np.abs(x)
    bmag = np.where(np.isfinite(lb) & np.isfinite(ub), np.maximum(np.abs(lb), np.abs(ub)), 0.0)
    comps += _interval_components(x, lb, ub, xmag)
    for (A, l, u) in linear:
        A = np.array(A, float)
        A = np.atleast_2d(A)
        A[np.isnan(A)] = 0.0
        r = A @ x
        mag = (np.abs(A) @ (xmag + bmag)) * (n + 2)
        comps += _interval_components(r, l, u, mag)
    for (v, l, u) in nonlinear_vals:
        v = np.atleast_1d(np.asarray(v, float))
        with np.errstate(invalid="ignore"):
            mag = np.where(np.isfinite(v), np.abs(v), 0.0)
        comps += _interval_components(v, np.broadcast_to(l, v.shape), np.broadcast_to(u, v.shape), mag)
    cv = 0.0
    lo = 0.0
    hi = 0.0
    for (c, e) in comps:
        if math.isnan(c):
            return float("nan"), float("nan"), float("nan")
        cv = max(cv, c)
        lo = max(lo, c - e)
        hi = max(hi, c + e)
    return float(cv), float(lo), float(hi)


def expand_constraints(constraints):
    """Split the user's constraints argument into linear [(A,l,u)] and nonlinear specs
    [{'fun','args','lb','ub','kind'}] in the order given (mirrors the documented forms)."""
    from scipy.optimize import LinearConstraint, NonlinearConstraint

    if isinstance(constraints, dict) or not hasattr(constraints, "__len__"):
        constraints = (constraints,)
    lin, nl = [], []
    for c in constraints:
        if isinstance(c, LinearConstraint):
            A = np.atleast_2d(np.asarray(c.A, float))
            m = A.shape[0]
            l = np.array(np.broadcast_to(np.atleast_1d(np.asarray(c.lb, float)), (m,)), float)
            u = np.array(np.broadcast_to(np.atleast_1d(np.asarray(c.ub, float)), (m,)), float)
            lin.append((A, l, u))
        elif isinstance(c, NonlinearConstraint):
            nl.append({"fun": c.fun, "args": (), "lb": np.atleast_1d(np.asarray(c.lb, float)),
                       "ub": np.atleast_1d(np.asarray(c.ub, float)), "kind": "nlc", "obj": c})
        elif isinstance(c, dict):
            t = c.get("type")
            nl.append({"fun": c.get("fun"), "args": tuple(c.get("args", ())),
                       "lb": np.array([0.0]), "ub": np.array([0.0 if t == "eq" else np.inf]),
                       "kind": "dict", "obj": c})
        else:
            raise TypeError("unsupported constraint")
    return lin, nl
