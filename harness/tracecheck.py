"""Validate recorded traces against spec/TraceCobyqa.tla with TLC (batch, monitor style)."""
import json
import os
import time

from . import keys
from .common import OUT, run_tlc, write_cfg, printed_values, Machinery


def validate(traces, tag, groups=None, workers=None):
    """traces: list of recorder traces (floats as K). groups: optional list of index lists that
    must share one key space.  Returns (per-trace list of [(clause, event index)], stats)."""
    enc = [None] * len(traces)
    if groups:
        done = set()
        for g in groups:
            e, _ = keys.encode([traces[i] for i in g])
            for i, t in zip(g, e):
                enc[i] = t
                done.add(i)
        for i in range(len(traces)):
            if i not in done:
                enc[i] = keys.encode([traces[i]])[0][0]
    else:
        for i, t in enumerate(traces):
            enc[i] = keys.encode([t])[0][0]
    path = os.path.join(OUT, f"traces-{tag}.json")
    with open(path, "w") as fh:
        json.dump(keys.sanitize(enc), fh)
    cfg = write_cfg(os.path.join(OUT, f"trace-{tag}.cfg"), spec="TSpec")
    t0 = time.time()
    res = run_tlc("TraceCobyqa", cfg, env={"TRACE_FILE": path}, tag=f"trace-{tag}", workers=workers,
                  timeout=7200)
    vals = printed_values(res["out"], "TRACE")
    per = [None] * len(traces)
    for v in vals:
        # v = [tid, rid, nev, nit, nevents, viol]
        tid = v[0]
        per[tid - 1] = {"nev": v[2], "nit": v[3], "nevents": v[4],
                        "viol": [(c, l) for (c, l) in v[5]]}
    missing = [i for i, p in enumerate(per) if p is None]
    if missing:
        raise Machinery(f"TLC did not report {len(missing)} traces (first {missing[:3]}):\n" +
                        "\n".join(res["out"].splitlines()[-30:]))
    stats = {"states": res["distinct"], "transitions": res["generated"], "wall": time.time() - t0,
             "file": path}
    return per, stats, enc
