"""Order keys: floats -> per-trace (or per-group) ranks; NaN -> reserved key (DESIGN 2.3)."""
import math

from .recorder import K

NAN_KEY = -1000000


def _walk(o, fn):
    if isinstance(o, K):
        return fn(o)
    if isinstance(o, dict):
        return {k: _walk(v, fn) for k, v in o.items()}
    if isinstance(o, (list, tuple)):
        return [_walk(v, fn) for v in o]
    return o


def encode(traces):
    """traces: list of {'hdr':..., 'ev':[...]} sharing one key space. Returns JSON-able copies."""
    vals = set()

    def collect(v):
        f = float(v)
        if not math.isnan(f):
            vals.add(f + 0.0)
        return v

    for t in traces:
        _walk(t["hdr"], collect)
        _walk(t["ev"], collect)
    order = sorted(vals)
    rank = {}
    for i, v in enumerate(order):
        rank[v] = i

    def key(v):
        f = float(v)
        return NAN_KEY if math.isnan(f) else rank[f + 0.0]

    out = []
    for t in traces:
        out.append({"hdr": _walk(t["hdr"], key), "ev": _walk(t["ev"], key)})
    return out, order


def sanitize(o):
    """JSON for TLC's Json module: no null, no floats."""
    if o is None:
        return "none"
    if isinstance(o, bool):
        return o
    if isinstance(o, float):
        return repr(o)   # informational only (never compared by the specification)
    if isinstance(o, dict):
        return {str(k): sanitize(v) for k, v in o.items()}
    if isinstance(o, (list, tuple)):
        return [sanitize(v) for v in o]
    if hasattr(o, "item"):
        return sanitize(o.item())
    return o
